#!/bin/bash
# Driver of all checks.
#   ./run.sh setup                    pre-build everything (offline)
#   ./run.sh <property-id> <tier>     run one check (tier: quick | thorough)
#   ./run.sh replay <file>            re-execute a recorded violation
# Every invocation rebuilds the harness against /repo's current working tree.
set -u
export GOFLAGS=-mod=mod GOPROXY=off GOSUMDB=off GOTOOLCHAIN=local
export VERIF_DIR="${VERIF_DIR:-/verif}"
HERE="$(cd "$(dirname "$0")" && pwd)"
REPO="${VERIF_REPO:-/repo}"
BUILD="$HERE/build"
mkdir -p "$BUILD" "$VERIF_DIR/evidence" "$VERIF_DIR/replays"

gen_overlay() {
  cat > "$BUILD/overlay.json" <<EOT
{"Replace": {"$REPO/verif_dump.go": "$HERE/overlay/mast/verif_dump.go"}}
EOT
}

build_mc() {
  gen_overlay
  cd "$HERE/harness" || exit 2
  if [ ! -f go.sum ] || [ "$REPO/go.sum" -nt go.sum ]; then cat "$REPO/go.sum" go.sum.extra 2>/dev/null | sort -u > go.sum; fi
  if go build -overlay "$BUILD/overlay.json" -tags verif -o "$BUILD/mc" ./cmd/mc 2> "$BUILD/build.err"; then
    return 0
  fi
  # Does the repository itself still compile? If not, that is not a hook problem.
  if ! (cd "$REPO" && go build ./... 2> "$BUILD/repo.err"); then
    echo "BUILD-ERROR: $REPO does not compile:"; cat "$BUILD/repo.err"; return 2
  fi
  echo "NOTE: hook overlay does not compile against the current tree; falling back to black-box (no state merging) build"
  sed 's/^/  hook: /' "$BUILD/build.err" | head -5
  if go build -o "$BUILD/mc" ./cmd/mc 2> "$BUILD/build2.err"; then
    return 0
  fi
  echo "BUILD-ERROR: harness does not compile:"; cat "$BUILD/build2.err"; return 2
}

case "${1:-}" in
  setup)
    build_mc || exit 2
    echo "setup ok"
    ;;
  replay)
    build_mc || exit 2
    exec "$BUILD/mc" replay "$2"
    ;;
  C[0-9][0-9])
    build_mc || exit 2
    export VERIF_TIER="${2:-quick}"
    exec "$BUILD/mc" "$1"
    ;;
  *)
    echo "usage: $0 setup | <property-id> quick|thorough | replay <file>"; exit 2
    ;;
esac
