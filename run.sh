#!/bin/bash
# Driver of all checks.
#   ./run.sh setup                    pre-build everything (offline)
#   ./run.sh <property-id> <tier>     run one check (tier: quick | thorough)
#   ./run.sh replay <file>            re-execute a recorded violation
# Every invocation rebuilds the harness against /repo's current working tree.
set -u
export GOFLAGS=-mod=mod GOPROXY=off GOSUMDB=off GOTOOLCHAIN=local
export VERIF_DIR="${VERIF_DIR:-/verif}"
HERE="$(cd "$(dirname "$0")" && pwd)"
export VERIF_HOME="$HERE"
REPO="${VERIF_REPO:-/repo}"
export VERIF_REPO="$REPO"
BUILD="$HERE/build"
mkdir -p "$BUILD" "$VERIF_DIR/evidence" "$VERIF_DIR/replays"

gen_overlay() {
  cat > "$BUILD/overlay.json" <<EOT
{"Replace": {"$REPO/verif_dump.go": "$HERE/overlay/mast/verif_dump.go"}}
EOT
}

build_mc() {
  gen_overlay
  cd "$HERE/harness" || exit 2
  # background runs on a snapshot (vp run --with-repo) point the module at that snapshot
  # always: the module under test is whatever $REPO says, not what the committed go.mod happens to hold
  go mod edit -replace "github.com/jrhy/mast=$REPO"
  if [ ! -f go.sum ] || [ "$REPO/go.sum" -nt go.sum ]; then cat "$REPO/go.sum" go.sum.extra 2>/dev/null | sort -u > go.sum; fi
  if go build -overlay "$BUILD/overlay.json" -tags verif -o "$BUILD/mc" ./cmd/mc 2> "$BUILD/build.err"; then
    return 0
  fi
  # Does the repository itself still compile? If not, that is not a hook problem.
  if ! (cd "$REPO" && go build ./... 2> "$BUILD/repo.err"); then
    echo "BUILD-ERROR: $REPO does not compile:"; cat "$BUILD/repo.err"; return 2
  fi
  echo "NOTE: hook overlay does not compile against the current tree; falling back to black-box (no state merging) build"
  sed 's/^/  hook: /' "$BUILD/build.err" | head -5
  if go build -o "$BUILD/mc" ./cmd/mc 2> "$BUILD/build2.err"; then
    return 0
  fi
  echo "BUILD-ERROR: harness does not compile:"; cat "$BUILD/build2.err"; return 2
}

# build_sched: engine S. Regenerates the instrumented copy of package mast from the
# current sources, then builds the scheduler-enabled binary. Returns non-zero (and
# says why) if the sources contain a concurrency construct the instrumenter does
# not model or the result does not compile; callers then fall back to the plain binary.
build_sched() {
  gen_overlay
  cd "$HERE/harness" || return 2
  go build -o "$BUILD/instr" ./cmd/instr 2> "$BUILD/instr.err" || { echo "NOTE: instrumenter does not build:"; head -5 "$BUILD/instr.err"; return 1; }
  rm -rf "$BUILD/instr-out"; mkdir -p "$BUILD/instr-out"
  if ! "$BUILD/instr" "$REPO" "$BUILD/instr-out" "$HERE/overlay/verifrt" "$BUILD/overlay.json" > "$BUILD/overlay-sched.json" 2> "$BUILD/instr.log"; then
    echo "NOTE: instrumentation refused the current sources: $(grep INSTR-ERROR "$BUILD/instr.log")"; return 1
  fi
  if ! go build -overlay "$BUILD/overlay-sched.json" -tags "verif sched" -o "$BUILD/mc-sched" ./cmd/mc 2> "$BUILD/sched.err"; then
    echo "NOTE: instrumented build failed:"; head -5 "$BUILD/sched.err"; return 1
  fi
  return 0
}

# build_race: the plain harness (unmodified package mast + dump hook) with the Go race
# detector, for the free-running pass of C11.
build_race() {
  gen_overlay
  cd "$HERE/harness" || return 2
  go build -race -overlay "$BUILD/overlay.json" -tags verif -o "$BUILD/mc-race" ./cmd/mc 2> "$BUILD/race.err" || { echo "NOTE: race-enabled build failed:"; head -3 "$BUILD/race.err"; rm -f "$BUILD/mc-race"; return 1; }
}

# build_q: engine Q - a test binary built with go1.26.8 (testing/synctest) around the
# unmodified package; optional (C03 says so in its evidence when it is missing)
build_q() {
  gen_overlay
  command -v go1.26.8 >/dev/null || return 1
  ( cd "$HERE/harnessq" || exit 1
    go1.26.8 mod edit -replace "github.com/jrhy/mast=$REPO"
    go1.26.8 test -c -overlay "$BUILD/overlay.json" -tags verif -vet=off -o "$BUILD/q.test" . ) 2> "$BUILD/q.err" || { echo "NOTE: engine Q does not build:"; head -3 "$BUILD/q.err"; rm -f "$BUILD/q.test"; return 1; }
}

# conformance of the instrumenter: with the pass-through runtime the instrumented
# package must pass the repository's own root-package tests.
sched_conformance() {
  ( cd "$REPO" && go test -overlay "$BUILD/overlay-sched.json" -tags verif -vet=off -count=1 . ./persist/file/ ) > "$BUILD/conformance.log" 2>&1
}

# run_guarded <id> <cmd...>: runs a check; if the exploring process itself dies
# (Go runtime "fatal error", an unrecovered panic in a goroutine the harness does
# not own, a signal) the crash is reported as a violation of the property whose
# check was running, with the crash output as the replay artefact.
run_guarded() {
  local id="$1"; shift
  local out="$BUILD/$id.$$.out"
  # a last-resort limit: quick checks take 1-2 minutes, thorough ones up to an hour; a check that
  # is still running after 15 min / 4 h is hanging inside the code under test (e.g. a deadlocked
  # worker pool), which is reported as a violation of the property being checked
  local limit=900
  [ "${VERIF_TIER:-quick}" = thorough ] && limit=14400
  timeout --signal=KILL "$limit" "$@" 2>&1 | tee "$out"
  local code=${PIPESTATUS[0]}
  if [ "$code" -eq 137 ] && ! grep -q "^fatal error:\|^panic:" "$out"; then
    local rp="$VERIF_DIR/replays/$id-hang.json"
    printf '{"property":"%s","check":"hang","sig":"%s|check-did-not-terminate","what":"the check was still running after %s seconds: the code under test hangs (deadlock or livelock)","output_tail":%s}\n' "$id" "$id" "$limit" "$(tail -20 "$out" | python3 -c 'import json,sys; print(json.dumps(sys.stdin.read()))')" > "$rp"
    echo "VIOLATION property=$id replay=$rp"
    echo "  the check did not terminate within ${limit}s (hang inside the code under test)"
    rm -f "$out"
    exit 1
  fi
  if [ "$code" -eq 0 ] || [ "$code" -eq 1 ]; then rm -f "$out"; exit "$code"; fi
  if grep -q "^HARNESS-ERROR\|^BUILD-ERROR" "$out"; then rm -f "$out"; exit 2; fi
  if grep -q "^fatal error:\|^panic:\|^goroutine [0-9]* \[" "$out" || [ "$code" -ge 128 ]; then
    local rp="$VERIF_DIR/replays/$id-crash.json"
    python3 - "$id" "$out" "$rp" "$code" <<'PY'
import json,sys
pid,out,rp,code=sys.argv[1:5]
lines=open(out,errors='replace').read().splitlines()
head=[l for l in lines if l.startswith(('fatal error','panic:','runtime:'))][:5]
json.dump({"property":pid,"check":"crash","sig":pid+"|exploring-process-crashed","what":"the process exploring this property crashed inside the code under test","exit_code":int(code),"crash":head,"output_head":lines[:120]},open(rp,'w'),indent=1)
PY
    echo "VIOLATION property=$id replay=$rp"
    echo "  the exploring process crashed (exit $code): $(grep -m1 '^fatal error:\|^panic:' "$out")"
    rm -f "$out"
    exit 1
  fi
  rm -f "$out"
  exit "$code"
}

case "${1:-}" in
  setup)
    build_mc || exit 2
    if build_sched; then
      if sched_conformance; then echo "engine S: instrumented package passes the repository's tests in pass-through mode"; else echo "WARNING: instrumented package fails the repository's tests (see $BUILD/conformance.log)"; fi
    fi
    build_race && echo "race-enabled binary built"
    build_q && echo "engine Q (go1.26.8 synctest) binary built"
    echo "setup ok"
    ;;
  replay)
    [ -n "${2:-}" ] || { echo "usage: $0 replay <file>"; exit 2; }
    set -- replay "$(readlink -f "$2")"
    build_mc || exit 2
    if grep -q '"check": "C\(03\|11\)-\(sched\|race\)"\|"property": "C\(03\|11\)"' "$2" 2>/dev/null && build_sched; then
      [ -x "$BUILD/mc-race" ] || build_race
      exec "$BUILD/mc-sched" replay "$2"
    fi
    exec "$BUILD/mc" replay "$2"
    ;;
  C03|C11|C18)
    build_mc || exit 2
    export VERIF_TIER="${2:-quick}"
    if [ "$1" = C11 ]; then build_race; fi
    if [ "$1" = C03 ] || [ "$1" = C11 ]; then build_q; fi
    if build_sched; then
      if [ "$VERIF_TIER" = thorough ] && ! sched_conformance; then
        echo "NOTE: instrumented package fails the repository's own tests in pass-through mode; engine S not used"
        export VERIF_NO_SCHED=1
        run_guarded "$1" "$BUILD/mc" "$1"
      fi
      run_guarded "$1" "$BUILD/mc-sched" "$1"
    else
      export VERIF_NO_SCHED=1
      run_guarded "$1" "$BUILD/mc" "$1"
    fi
    ;;
  C[0-9][0-9])
    build_mc || exit 2
    export VERIF_TIER="${2:-quick}"
    run_guarded "$1" "$BUILD/mc" "$1"
    ;;
  *)
    echo "usage: $0 setup | <property-id> quick|thorough | replay <file>"; exit 2
    ;;
esac
