#!/bin/bash
# seed_regress.sh [seed...]: re-runs, against the current checks, every kept seeded change
# with the check(s) that are recorded (meta.json) as having caught it. One line per seed;
# exit 1 if a change that used to be caught no longer is.
set -u
export GOFLAGS=-mod=mod GOPROXY=off GOSUMDB=off GOTOOLCHAIN=local
cd /verif/seeded || exit 2
seeds="${*:-$(ls)}"
bad=0
for s in $seeds; do
  d=/verif/seeded/$s
  [ -f "$d/meta.json" ] || continue
  checks=$(python3 - "$d/meta.json" <<'PY'
import json,sys
m=json.load(open(sys.argv[1]))
print(' '.join(sorted({r.split(':')[0] for r in m.get('check_results',[]) if ':exit=1:' in r})))
PY
)
  [ -z "$checks" ] && { echo "$s: (no detecting check recorded)"; continue; }
  if ! git -C /repo diff --quiet; then echo "/repo has uncommitted changes; refusing"; exit 2; fi
  patch="$d/patch.rebased.diff"; [ -f "$patch" ] || patch="$d/patch.diff"
  if ! git -C /repo apply "$patch" 2>/dev/null && ! git -C /repo apply --3way "$d/patch.diff" 2>/dev/null; then
    git -C /repo checkout -- . ; git -C /repo reset -q; echo "$s: patch no longer applies"; continue
  fi
  git -C /repo reset -q
  if ! (cd /repo && go build ./... 2>/dev/null); then git -C /repo checkout -- .; echo "$s: does not compile on the current tree"; continue; fi
  line="$s:"
  for c in $checks; do
    VERIF_DIR=/tmp/vd-seed /verif/run.sh "$c" quick > /tmp/vd-seed-$c.log 2>&1; code=$?
    line="$line $c=exit$code"
    [ $code -ne 1 ] && { bad=1; line="$line(MISSED)"; }
  done
  git -C /repo checkout -- .
  echo "$line"
done
rm -rf /tmp/vd-seed /tmp/vd-seed-*.log
exit $bad
