//go:build verif

// This file is NOT part of jrhy/mast. It is added to package mast at check time
// through `go build -overlay` by /verif/run.sh (guard: build tag `verif`).
// It only reads private state, to give the explorer an exact canonical key of the
// in-memory heap (nodes, flags, slice geometry, aliasing) so that equal states can
// be merged. It never decides a verdict.
package mast

import (
	"fmt"
	"reflect"
	"sort"
	"strings"
	"sync"
	"unsafe"
)

// VerifDumper renders trees, cursors and cache entries into one canonical string.
// Node identities and backing-array identities are numbered by first visit, so
// two heaps that are isomorphic (same graph, flags, aliasing) render identically.
type VerifDumper struct {
	ids     map[*mastNode]int
	arrs    map[unsafe.Pointer]int
	uses    map[int]int // backing array id -> number of slices using it
	geo     strings.Builder
	sb      strings.Builder
	reduced bool
}

func NewVerifDumper(reduced bool) *VerifDumper {
	return &VerifDumper{ids: map[*mastNode]int{}, arrs: map[unsafe.Pointer]int{}, uses: map[int]int{}, reduced: reduced}
}

// Aliased reports whether two live slices share a backing array.
func (d *VerifDumper) Aliased() bool {
	for _, n := range d.uses {
		if n > 1 {
			return true
		}
	}
	return false
}

// String returns the key. In reduced mode slice capacities and backing-array
// identities are left out as long as no two live slices share a backing array
// (then append results do not depend on them); if any sharing exists the full
// geometry of every node is appended, so such states are never merged wrongly.
func (d *VerifDumper) String() string {
	if d.reduced && d.Aliased() {
		return d.sb.String() + "ALIASED:" + d.geo.String()
	}
	return d.sb.String()
}

func (d *VerifDumper) Raw(s string) { d.sb.WriteString(s) }

func (d *VerifDumper) arr(p unsafe.Pointer, c int) int {
	if p == nil || c == 0 {
		return -1
	}
	id, ok := d.arrs[p]
	if !ok {
		id = len(d.arrs)
		d.arrs[p] = id
	}
	d.uses[id]++
	return id
}

func (d *VerifDumper) link(l interface{}) {
	switch x := l.(type) {
	case nil:
		d.sb.WriteString("-")
	case string:
		d.sb.WriteString("S:")
		d.sb.WriteString(x)
	case *mastNode:
		d.node(x)
	default:
		fmt.Fprintf(&d.sb, "?%T", l)
	}
}

func (d *VerifDumper) node(n *mastNode) {
	if n == nil {
		d.sb.WriteString("P:nil")
		return
	}
	if id, ok := d.ids[n]; ok {
		fmt.Fprintf(&d.sb, "P:%d", id)
		return
	}
	id := len(d.ids)
	d.ids[n] = id
	fmt.Fprintf(&d.sb, "P:%d{", id)
	if n.dirty {
		d.sb.WriteString("D")
	}
	if n.shared {
		d.sb.WriteString("H")
	}
	if n.source != nil {
		d.sb.WriteString(" src=")
		d.sb.WriteString(*n.source)
	}
	d.sb.WriteString(" K")
	verifRenderSlice(&d.sb, n.Key)
	d.sb.WriteString(" V")
	verifRenderSlice(&d.sb, n.Value)
	geo := fmt.Sprintf(" g%d/%d,%d/%d,%d/%d a%d,%d,%d",
		len(n.Key), cap(n.Key), len(n.Value), cap(n.Value), len(n.Link), cap(n.Link),
		d.arr(unsafe.Pointer(unsafe.SliceData(n.Key[:cap(n.Key)])), cap(n.Key)),
		d.arr(unsafe.Pointer(unsafe.SliceData(n.Value[:cap(n.Value)])), cap(n.Value)),
		d.arr(unsafe.Pointer(unsafe.SliceData(n.Link[:cap(n.Link)])), cap(n.Link)))
	if !d.reduced {
		d.sb.WriteString(geo)
	} else {
		fmt.Fprintf(&d.sb, " g%d,%d,%d", len(n.Key), len(n.Value), len(n.Link))
		fmt.Fprintf(&d.geo, "%d:%s;", id, geo)
	}
	verifUnknownFields(&d.sb, reflect.ValueOf(n).Elem(), verifKnownNode)
	d.sb.WriteString(" L[")
	for i, l := range n.Link {
		if i > 0 {
			d.sb.WriteString(" ")
		}
		d.link(l)
	}
	d.sb.WriteString("]}")
}

// Tree renders the whole in-memory part of a tree.
func (d *VerifDumper) Tree(m *Mast) {
	if m == nil {
		d.sb.WriteString("T(nil);")
		return
	}
	fmt.Fprintf(&d.sb, "T(h=%d n=%d g=%d s=%d bf=%d f=%s c=%v root=", m.height, m.size, m.growAfterSize, m.shrinkBelowSize, m.branchFactor, m.nodeFormat, m.nodeCache != nil)
	d.link(m.root)
	verifUnknownFields(&d.sb, reflect.ValueOf(m).Elem(), verifKnownMast)
	d.sb.WriteString(");")
}

// Cursor renders a cursor: its private tree and its path.
func (d *VerifDumper) Cursor(c *Cursor) {
	if c == nil {
		d.sb.WriteString("C(nil);")
		return
	}
	d.sb.WriteString("C(")
	verifUnknownFields(&d.sb, reflect.ValueOf(c).Elem(), verifKnownCursor)
	d.Tree(c.m)
	for _, pe := range c.path {
		d.node(pe.node)
		fmt.Fprintf(&d.sb, "@%d ", pe.linkIndex)
	}
	d.sb.WriteString(");")
}

// CacheEntries renders cache entries (key -> cached object) in sorted key order.
func (d *VerifDumper) CacheEntries(entries map[string]interface{}) {
	keys := make([]string, 0, len(entries))
	for k := range entries {
		keys = append(keys, k)
	}
	sort.Strings(keys)
	d.sb.WriteString("X(")
	for _, k := range keys {
		d.sb.WriteString(k)
		d.sb.WriteString("=>")
		if n, ok := entries[k].(*mastNode); ok {
			d.node(n)
		} else {
			fmt.Fprintf(&d.sb, "?%T", entries[k])
		}
		d.sb.WriteString(";")
	}
	d.sb.WriteString(");")
}

// VerifNodeInfo is a diagnostic view of a cached object (never used for verdicts).
type VerifNodeInfo struct {
	Keys, Values []interface{}
	Links        []string // "" nil, "S:<name>", "P" pointer
	Dirty        bool
	Shared       bool
	Source       string
}

func VerifInspect(v interface{}) (VerifNodeInfo, bool) {
	n, ok := v.(*mastNode)
	if !ok || n == nil {
		return VerifNodeInfo{}, false
	}
	info := VerifNodeInfo{Keys: append([]interface{}{}, n.Key...), Values: append([]interface{}{}, n.Value...), Dirty: n.dirty, Shared: n.shared}
	if n.source != nil {
		info.Source = *n.source
	}
	for _, l := range n.Link {
		switch x := l.(type) {
		case nil:
			info.Links = append(info.Links, "")
		case string:
			info.Links = append(info.Links, "S:"+x)
		default:
			info.Links = append(info.Links, "P")
		}
	}
	return info, true
}

// verifRenderSlice renders the elements of a key or value slice. Plain data is printed with
// %#v; element types that contain pointers or interfaces are walked by value, so that the
// rendering never contains an address (addresses differ between isomorphic heaps).
func verifRenderSlice(sb *strings.Builder, l []interface{}) {
	if l == nil {
		sb.WriteString("nil")
		return
	}
	sb.WriteString("[")
	for i, e := range l {
		if i > 0 {
			sb.WriteString(", ")
		}
		if e == nil {
			sb.WriteString("<nil>")
			continue
		}
		t := reflect.TypeOf(e)
		if !verifHasIndirection(t) {
			fmt.Fprintf(sb, "%#v", e)
			continue
		}
		verifRenderValue(sb, reflect.ValueOf(e))
	}
	sb.WriteString("]")
}

var verifIndir sync.Map // reflect.Type -> bool

func verifHasIndirection(t reflect.Type) bool {
	if v, ok := verifIndir.Load(t); ok {
		return v.(bool)
	}
	r := verifHasIndirection1(t, 0)
	verifIndir.Store(t, r)
	return r
}

func verifHasIndirection1(t reflect.Type, depth int) bool {
	if depth > 8 {
		return true
	}
	switch t.Kind() {
	case reflect.Ptr, reflect.Interface, reflect.UnsafePointer, reflect.Chan, reflect.Func:
		return true
	case reflect.Slice, reflect.Array:
		return verifHasIndirection1(t.Elem(), depth+1)
	case reflect.Map:
		return verifHasIndirection1(t.Key(), depth+1) || verifHasIndirection1(t.Elem(), depth+1)
	case reflect.Struct:
		for i := 0; i < t.NumField(); i++ {
			if verifHasIndirection1(t.Field(i).Type, depth+1) {
				return true
			}
		}
	}
	return false
}

func verifRenderValue(sb *strings.Builder, v reflect.Value) {
	switch v.Kind() {
	case reflect.Ptr:
		if v.IsNil() {
			fmt.Fprintf(sb, "(%s)nil", v.Type())
			return
		}
		sb.WriteString("&")
		verifRenderValue(sb, v.Elem())
	case reflect.Interface:
		if v.IsNil() {
			sb.WriteString("<nil>")
			return
		}
		verifRenderValue(sb, v.Elem())
	case reflect.Struct:
		sb.WriteString(v.Type().String())
		sb.WriteString("{")
		for i := 0; i < v.NumField(); i++ {
			if i > 0 {
				sb.WriteString(", ")
			}
			sb.WriteString(v.Type().Field(i).Name)
			sb.WriteString(":")
			verifRenderValue(sb, v.Field(i))
		}
		sb.WriteString("}")
	case reflect.Slice, reflect.Array:
		if v.Kind() == reflect.Slice && v.IsNil() {
			fmt.Fprintf(sb, "%s(nil)", v.Type())
			return
		}
		sb.WriteString(v.Type().String())
		sb.WriteString("{")
		for i := 0; i < v.Len(); i++ {
			if i > 0 {
				sb.WriteString(", ")
			}
			verifRenderValue(sb, v.Index(i))
		}
		sb.WriteString("}")
	case reflect.Map:
		if v.IsNil() {
			fmt.Fprintf(sb, "%s(nil)", v.Type())
			return
		}
		sb.WriteString(v.Type().String())
		sb.WriteString("{")
		var parts []string
		for _, k := range v.MapKeys() {
			var b strings.Builder
			verifRenderValue(&b, k)
			b.WriteString(":")
			verifRenderValue(&b, v.MapIndex(k))
			parts = append(parts, b.String())
		}
		sort.Strings(parts)
		sb.WriteString(strings.Join(parts, ", "))
		sb.WriteString("}")
	default:
		if v.CanInterface() {
			fmt.Fprintf(sb, "%#v", v.Interface())
		} else {
			fmt.Fprintf(sb, "%v", v)
		}
	}
}

// Fields of the library's structs that the renderers above cover (or that hold configuration, which
// is the same for every state of one exploration). Any OTHER field - one that a change to the library
// added - is rendered generically below, so that state kept in it (a remembered list, a flag, a scratch
// buffer's length) keeps two otherwise equal states apart instead of being merged away unseen.
var (
	verifKnownMast = map[string]bool{"root": true, "zeroKey": true, "zeroValue": true, "keyOrder": true, "keyLayer": true, "unmarshalerUsesRegisteredTypes": true,
		"marshal": true, "unmarshal": true, "branchFactor": true, "height": true, "size": true, "growAfterSize": true, "shrinkBelowSize": true, "persist": true,
		"debug": true, "nodeCache": true, "nodeFormat": true}
	verifKnownNode   = map[string]bool{"Node": true, "dirty": true, "shared": true, "expected": true, "source": true}
	verifKnownCursor = map[string]bool{"path": true, "m": true}
)

func verifUnknownFields(sb *strings.Builder, v reflect.Value, known map[string]bool) {
	t := v.Type()
	for i := 0; i < t.NumField(); i++ {
		if known[t.Field(i).Name] {
			continue
		}
		sb.WriteString(" +")
		sb.WriteString(t.Field(i).Name)
		sb.WriteString("=")
		verifShape(sb, v.Field(i), 0)
	}
}

// verifShape renders a value of unknown meaning by what can be read without interpreting it: scalars by
// value, slices / maps / channels by length (and the shapes of up to 8 elements), pointers and interfaces by
// nil-ness and the shape of what they hold (to depth 3), functions by nil-ness. No addresses.
func verifShape(sb *strings.Builder, v reflect.Value, depth int) {
	switch v.Kind() {
	case reflect.Bool:
		fmt.Fprint(sb, v.Bool())
	case reflect.Int, reflect.Int8, reflect.Int16, reflect.Int32, reflect.Int64:
		fmt.Fprint(sb, v.Int())
	case reflect.Uint, reflect.Uint8, reflect.Uint16, reflect.Uint32, reflect.Uint64, reflect.Uintptr:
		fmt.Fprint(sb, v.Uint())
	case reflect.Float32, reflect.Float64:
		fmt.Fprint(sb, v.Float())
	case reflect.String:
		fmt.Fprintf(sb, "%q", v.String())
	case reflect.Slice, reflect.Array, reflect.Map, reflect.Chan:
		if v.Kind() != reflect.Array && v.IsNil() {
			sb.WriteString("nil")
			return
		}
		fmt.Fprintf(sb, "len%d", v.Len())
		if depth < 3 && (v.Kind() == reflect.Slice || v.Kind() == reflect.Array) {
			sb.WriteString("[")
			for i := 0; i < v.Len() && i < 8; i++ {
				verifShape(sb, v.Index(i), depth+1)
				sb.WriteString(",")
			}
			sb.WriteString("]")
		}
	case reflect.Ptr, reflect.Interface:
		if v.IsNil() {
			sb.WriteString("nil")
			return
		}
		sb.WriteString("&")
		if depth < 3 {
			verifShape(sb, v.Elem(), depth+1)
		}
	case reflect.Func:
		if v.IsNil() {
			sb.WriteString("nilfunc")
		} else {
			sb.WriteString("func")
		}
	case reflect.Struct:
		sb.WriteString("{")
		if depth < 3 {
			for i := 0; i < v.NumField(); i++ {
				verifShape(sb, v.Field(i), depth+1)
				sb.WriteString(";")
			}
		}
		sb.WriteString("}")
	default:
		sb.WriteString("?")
	}
}
