// Package verifrt is NOT part of jrhy/mast. It is a cooperative runtime that
// /verif's engine S puts under an instrumented copy of package mast (through
// `go build -overlay`): `import "sync"`, `go`, and channel operations of the
// package are rewritten to the types and functions below. Exactly one logical
// thread runs at a time; every operation that can block (Lock, channel send and
// receive, WaitGroup.Wait), every thread start and every environment call is a
// scheduling point at which the explorer chooses who runs next.
package verifrt

import (
	"fmt"
	stdsync "sync"
	"sync/atomic"
	"time"
)

// ptLive counts goroutines started through Go in pass-through mode that have not
// finished yet. A controlled execution must not start while any are alive (they
// would enter the shim believing they are scheduled threads).
var ptLive int64

// ---------- scheduler ----------

type opKind int

const (
	opStart opKind = iota
	opEnv
	opLock
	opRLock
	opSend
	opRecv
	opWait
)

type pendingOp struct {
	kind      opKind
	mu        *Mutex
	rw        *RWMutex
	ch        *chanCore
	wg        *WaitGroup
	val       interface{}
	ok        bool
	completed bool // the partner of a rendezvous already did the transfer
	desc      string
}

type thread struct {
	id      int
	resume  chan struct{}
	pending *pendingOp
	done    bool
}

// Point is one scheduling decision.
type Point struct {
	Enabled    []int  // thread ids in canonical order (running thread first if still enabled, then ascending)
	Chosen     int    // index into Enabled
	CurEnabled bool   // the thread that was running is still enabled (switching away is a preemption)
	Desc       string // pending operation of the chosen thread
}

// Result describes one controlled execution.
type Result struct {
	Points     []Point
	Deadlock   bool
	Panic      interface{} // panic that escaped a thread (nil if none)
	PanicTID   int
	Divergence string // non-empty: the choice prefix could not be replayed (harness error)
	Threads    int
}

type sched struct {
	threads  []*thread
	cur      *thread
	choices  []int
	pos      int
	res      *Result
	killing  bool
	finished chan struct{}
	finOnce  stdsync.Once
	live     stdsync.WaitGroup
	maxPts   int
}

var s *sched // nil: pass-through mode (real goroutines, real synchronisation)

type killed struct{}

// Active reports whether a controlled execution is in progress.
func Active() bool { return s != nil }

// Run executes main as thread 0 under the scheduler, replaying choices (then
// always choice 0). maxPoints bounds the execution (a livelock guard).
func Run(choices []int, maxPoints int, main func()) *Result {
	if s != nil {
		panic("verifrt: nested Run")
	}
	for i := 0; atomic.LoadInt64(&ptLive) > 0; i++ {
		if i > 20000 {
			return &Result{Divergence: "goroutines started before the controlled execution are still running (leaked by the code under test?)"}
		}
		time.Sleep(100 * time.Microsecond)
	}
	sc := &sched{choices: choices, res: &Result{}, finished: make(chan struct{}), maxPts: maxPoints}
	s = sc
	t0 := sc.newThread()
	sc.cur = t0
	sc.live.Add(1)
	go sc.threadMain(t0, main)
	t0.resume <- struct{}{}
	<-sc.finished
	// tear down: every thread still parked is woken to die
	sc.killing = true
	for _, t := range sc.threads {
		if !t.done {
			select {
			case t.resume <- struct{}{}:
			default:
			}
		}
	}
	sc.live.Wait()
	sc.res.Threads = len(sc.threads)
	s = nil
	return sc.res
}

func (sc *sched) newThread() *thread {
	t := &thread{id: len(sc.threads), resume: make(chan struct{}, 1), pending: &pendingOp{kind: opStart, desc: "start"}}
	sc.threads = append(sc.threads, t)
	return t
}

func (sc *sched) finish() { sc.finOnce.Do(func() { close(sc.finished) }) }

func (sc *sched) threadMain(t *thread, f func()) {
	defer sc.live.Done()
	<-t.resume
	if sc.killing {
		t.done = true
		return
	}
	t.pending = nil
	defer func() {
		if p := recover(); p != nil {
			if _, ok := p.(killed); !ok && !sc.killing {
				sc.res.Panic = p
				sc.res.PanicTID = t.id
				t.done = true
				sc.killing = true
				sc.finish()
				return
			}
		}
		if sc.killing {
			t.done = true
			return
		}
		t.done = true
		sc.schedule(t)
	}()
	f()
}

func (sc *sched) enabled(t *thread) bool {
	if t.done || t.pending == nil {
		return false
	}
	o := t.pending
	if o.completed {
		return true
	}
	switch o.kind {
	case opStart, opEnv:
		return true
	case opLock:
		if o.mu != nil {
			return !o.mu.held
		}
		return !o.rw.w && o.rw.r == 0
	case opRLock:
		return !o.rw.w
	case opWait:
		return o.wg.n == 0
	case opSend:
		c := o.ch
		if c.closed {
			return true // will panic, like the real thing
		}
		if len(c.buf) < c.cap {
			return true
		}
		return sc.partner(c, opRecv, t) != nil
	case opRecv:
		c := o.ch
		if len(c.buf) > 0 || c.closed {
			return true
		}
		return sc.partner(c, opSend, t) != nil
	}
	return false
}

// partner finds a thread parked on the opposite, not yet completed, operation of the same channel.
func (sc *sched) partner(c *chanCore, kind opKind, self *thread) *thread {
	for _, t := range sc.threads {
		if t == self || t.done || t.pending == nil {
			continue
		}
		if t.pending.kind == kind && t.pending.ch == c && !t.pending.completed {
			return t
		}
	}
	return nil
}

// schedule picks the next thread. t is the calling thread (parked on t.pending, or done).
func (sc *sched) schedule(t *thread) {
	var en []*thread
	curEnabled := sc.enabled(t)
	if curEnabled {
		en = append(en, t)
	}
	for _, x := range sc.threads {
		if x != t && sc.enabled(x) {
			en = append(en, x)
		}
	}
	if len(en) == 0 {
		all := true
		for _, x := range sc.threads {
			if !x.done {
				all = false
			}
		}
		if !all {
			sc.res.Deadlock = true
		}
		sc.killing = true
		sc.finish()
		if !t.done {
			panic(killed{})
		}
		return
	}
	choice := 0
	if sc.pos < len(sc.choices) {
		choice = sc.choices[sc.pos]
		if choice >= len(en) {
			sc.res.Divergence = fmt.Sprintf("choice %d at point %d but only %d threads enabled", choice, sc.pos, len(en))
			sc.killing = true
			sc.finish()
			if !t.done {
				panic(killed{})
			}
			return
		}
	}
	sc.pos++
	ids := make([]int, len(en))
	for i, x := range en {
		ids[i] = x.id
	}
	nt := en[choice]
	sc.res.Points = append(sc.res.Points, Point{Enabled: ids, Chosen: choice, CurEnabled: curEnabled, Desc: nt.pending.desc})
	if sc.maxPts > 0 && len(sc.res.Points) > sc.maxPts {
		sc.res.Divergence = "point limit exceeded (livelock?)"
		sc.killing = true
		sc.finish()
		if !t.done {
			panic(killed{})
		}
		return
	}
	if nt == t {
		return
	}
	sc.cur = nt
	nt.resume <- struct{}{}
	if t.done {
		return
	}
	<-t.resume
	if sc.killing {
		panic(killed{})
	}
}

// point parks the current thread on o, lets the scheduler choose, and returns
// when this thread has been granted its operation.
func (sc *sched) point(o *pendingOp) {
	t := sc.cur
	t.pending = o
	sc.schedule(t)
	t.pending = nil
}

// Env is a scheduling point for an environment call (store, cache, ...).
func Env(desc string) {
	sc := s
	if sc == nil || sc.killing {
		return
	}
	sc.point(&pendingOp{kind: opEnv, desc: desc})
}

// Go starts a new logical thread.
func Go(f func()) {
	sc := s
	if sc == nil {
		atomic.AddInt64(&ptLive, 1)
		go func() {
			defer atomic.AddInt64(&ptLive, -1)
			f()
		}()
		return
	}
	if sc.killing {
		return
	}
	t := sc.newThread()
	sc.live.Add(1)
	go sc.threadMain(t, f)
}

// ---------- ownership (a dynamic partial-order reduction) ----------

// own tracks which threads have touched a synchronisation object. While only one
// thread has ever touched it, its operations cannot interact with any other
// thread, so they commute with everything the others do: an operation that is
// enabled is then executed without a scheduling point. (The 40 sends that fill
// flush's semaphore channel before any goroutine exists are the typical case.)
type own struct {
	tid    int // owner thread id + 1; 0 = untouched
	shared bool
}

// local reports whether the current thread is the only one that ever touched o.
func (sc *sched) local(o *own) bool {
	id := sc.cur.id + 1
	switch {
	case o.shared:
		return false
	case o.tid == 0:
		o.tid = id
		return true
	case o.tid == id:
		return true
	}
	o.shared = true
	return false
}

// ---------- sync shim ----------

type Mutex struct {
	held bool
	own  own
	real stdsync.Mutex
}

func (m *Mutex) Lock() {
	sc := s
	if sc == nil {
		m.real.Lock()
		return
	}
	if sc.killing {
		return
	}
	if !(sc.local(&m.own) && !m.held) {
		sc.point(&pendingOp{kind: opLock, mu: m, desc: "Lock"})
	}
	m.held = true
}

func (m *Mutex) Unlock() {
	sc := s
	if sc == nil {
		m.real.Unlock()
		return
	}
	if sc.killing {
		return
	}
	if !m.held {
		panic("sync: unlock of unlocked mutex")
	}
	m.held = false
}

type RWMutex struct {
	w    bool
	r    int
	real stdsync.RWMutex
}

func (m *RWMutex) Lock() {
	sc := s
	if sc == nil {
		m.real.Lock()
		return
	}
	if sc.killing {
		return
	}
	sc.point(&pendingOp{kind: opLock, rw: m, desc: "RWLock"})
	m.w = true
}
func (m *RWMutex) Unlock() {
	if s == nil {
		m.real.Unlock()
		return
	}
	m.w = false
}
func (m *RWMutex) RLock() {
	sc := s
	if sc == nil {
		m.real.RLock()
		return
	}
	if sc.killing {
		return
	}
	sc.point(&pendingOp{kind: opRLock, rw: m, desc: "RLock"})
	m.r++
}
func (m *RWMutex) RUnlock() {
	if s == nil {
		m.real.RUnlock()
		return
	}
	m.r--
}

type WaitGroup struct {
	n    int
	own  own
	real stdsync.WaitGroup
}

func (w *WaitGroup) Add(d int) {
	if s == nil {
		w.real.Add(d)
		return
	}
	if s.killing {
		return
	}
	s.local(&w.own)
	w.n += d
	if w.n < 0 {
		panic("sync: negative WaitGroup counter")
	}
}
func (w *WaitGroup) Done() { w.Add(-1) }
func (w *WaitGroup) Wait() {
	sc := s
	if sc == nil {
		w.real.Wait()
		return
	}
	if sc.killing {
		return
	}
	if sc.local(&w.own) && w.n == 0 {
		return
	}
	sc.point(&pendingOp{kind: opWait, wg: w, desc: "WaitGroup.Wait"})
}

type Once struct {
	done bool
	real stdsync.Once
}

func (o *Once) Do(f func()) {
	if s == nil {
		o.real.Do(f)
		return
	}
	if !o.done {
		o.done = true
		f()
	}
}

// ---------- channels ----------

type chanCore struct {
	cap    int
	buf    []interface{}
	closed bool
	own    own
}

// Chan replaces `chan T`.
type Chan[T any] struct {
	core chanCore
	real chan T
}

func NewChan[T any](n int) *Chan[T] {
	return &Chan[T]{core: chanCore{cap: n}, real: make(chan T, n)}
}

func (c *Chan[T]) Send(v T) {
	sc := s
	if sc == nil {
		c.real <- v
		return
	}
	if sc.killing {
		return
	}
	o := &pendingOp{kind: opSend, ch: &c.core, val: v, desc: "send"}
	if sc.local(&c.core.own) && !c.core.closed && len(c.core.buf) < c.core.cap {
		c.core.buf = append(c.core.buf, v) // thread-local so far and not blocking: no scheduling point
		return
	}
	sc.point(o)
	if o.completed {
		return // a receiver took the value while we were parked
	}
	core := &c.core
	if core.closed {
		panic("send on closed channel")
	}
	if r := sc.partner(core, opRecv, sc.cur); r != nil && len(core.buf) == 0 {
		r.pending.val, r.pending.ok, r.pending.completed = v, true, true
		return
	}
	core.buf = append(core.buf, v)
}

func (c *Chan[T]) recv() (T, bool) {
	var zero T
	sc := s
	if sc == nil {
		v, ok := <-c.real
		return v, ok
	}
	if sc.killing {
		return zero, false
	}
	o := &pendingOp{kind: opRecv, ch: &c.core, desc: "recv"}
	if sc.local(&c.core.own) && len(c.core.buf) > 0 {
		v := c.core.buf[0]
		c.core.buf = c.core.buf[1:]
		if v == nil {
			return zero, true
		}
		return v.(T), true
	}
	sc.point(o)
	if o.completed {
		if o.val == nil {
			return zero, o.ok
		}
		return o.val.(T), o.ok
	}
	core := &c.core
	if len(core.buf) > 0 {
		v := core.buf[0]
		core.buf = core.buf[1:]
		// a sender parked on the full buffer can now complete
		if sd := sc.partner(core, opSend, sc.cur); sd != nil && len(core.buf) < core.cap {
			core.buf = append(core.buf, sd.pending.val)
			sd.pending.completed = true
		}
		if v == nil {
			return zero, true
		}
		return v.(T), true
	}
	if sd := sc.partner(core, opSend, sc.cur); sd != nil {
		v := sd.pending.val
		sd.pending.completed = true
		if v == nil {
			return zero, true
		}
		return v.(T), true
	}
	if core.closed {
		return zero, false
	}
	panic("verifrt: recv granted but nothing to receive")
}

func (c *Chan[T]) Recv() T {
	v, _ := c.recv()
	return v
}

func (c *Chan[T]) Recv2() (T, bool) { return c.recv() }

func (c *Chan[T]) Close() {
	if s == nil {
		close(c.real)
		return
	}
	if s.killing {
		return
	}
	if c.core.closed {
		panic("close of closed channel")
	}
	s.local(&c.core.own)
	c.core.closed = true
}

func (c *Chan[T]) Len() int {
	if s == nil {
		return len(c.real)
	}
	return len(c.core.buf)
}

func (c *Chan[T]) Cap() int { return c.core.cap }
