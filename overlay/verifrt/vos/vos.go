//go:build verif

// Package vos is NOT part of jrhy/mast. It stands in for package os inside
// persist/file when the check of the backend contract explores concurrent writers
// (engine S): /verif's instrumenter rewrites `import "os"` of persist/file to this
// package (build-time overlay; the repository is not touched).
//
// Outside a controlled execution (verifrt.Active() == false) every function is the
// real package os. Inside one, files live in a small in-memory file system and
// every call is a scheduling point of the cooperative scheduler, taken before the
// step; a Write of more than one byte is two steps (first half, second half), so a
// reader can observe a file between creation and its first byte, and half-written.
package vos

import (
	"fmt"
	"io"
	"io/fs"
	"os"
	"path/filepath"
	"sort"
	"strings"
	"syscall"
	"time"

	"github.com/jrhy/mast/verifrt"
)

type (
	FileMode  = os.FileMode
	FileInfo  = os.FileInfo
	PathError = os.PathError
	LinkError = os.LinkError
	DirEntry  = os.DirEntry
)

const (
	O_RDONLY = os.O_RDONLY
	O_WRONLY = os.O_WRONLY
	O_RDWR   = os.O_RDWR
	O_APPEND = os.O_APPEND
	O_CREATE = os.O_CREATE
	O_EXCL   = os.O_EXCL
	O_SYNC   = os.O_SYNC
	O_TRUNC  = os.O_TRUNC

	ModePerm = os.ModePerm
	ModeDir  = os.ModeDir
)

var (
	ErrNotExist   = os.ErrNotExist
	ErrExist      = os.ErrExist
	ErrPermission = os.ErrPermission
	ErrClosed     = os.ErrClosed
	ErrInvalid    = os.ErrInvalid
)

func IsNotExist(err error) bool   { return os.IsNotExist(err) }
func IsExist(err error) bool      { return os.IsExist(err) }
func IsPermission(err error) bool { return os.IsPermission(err) }
func Getpid() int                 { return os.Getpid() }
func TempDir() string             { return os.TempDir() }
func Getenv(k string) string      { return os.Getenv(k) }

// ---- the in-memory file system ----

type inode struct {
	data []byte
	mode FileMode
}

type vfs struct {
	files map[string]*inode
	dirs  map[string]bool
	seq   int
}

var cur = &vfs{files: map[string]*inode{}, dirs: map[string]bool{"/": true}}

// Reset empties the virtual file system; dirs are created.
func Reset(dirs ...string) {
	cur = &vfs{files: map[string]*inode{}, dirs: map[string]bool{"/": true}}
	for _, d := range dirs {
		cur.dirs[filepath.Clean(d)] = true
	}
}

// Snapshot lists the virtual files (path -> content), for the harness.
func Snapshot() map[string][]byte {
	out := map[string][]byte{}
	for p, in := range cur.files {
		out[p] = append([]byte(nil), in.data...)
	}
	return out
}

func virtual() bool { return verifrt.Active() }

func point(op string) { verifrt.Env("fs:" + op) }

func perr(op, path string, err error) error { return &PathError{Op: op, Path: path, Err: err} }

func (v *vfs) parentOK(p string) bool { return v.dirs[filepath.Dir(p)] }

type vinfo struct {
	name string
	size int64
	mode FileMode
}

func (i vinfo) Name() string       { return i.name }
func (i vinfo) Size() int64        { return i.size }
func (i vinfo) Mode() FileMode     { return i.mode }
func (i vinfo) ModTime() time.Time { return time.Time{} }
func (i vinfo) IsDir() bool        { return i.mode.IsDir() }
func (i vinfo) Sys() interface{}   { return nil }

// File is *os.File outside controlled executions, a handle on an inode inside.
type File struct {
	real   *os.File
	in     *inode
	path   string
	off    int
	app    bool
	wr, rd bool
	closed bool
}

func Stat(path string) (FileInfo, error) {
	if !virtual() {
		return os.Stat(path)
	}
	point("stat")
	p := filepath.Clean(path)
	if in, ok := cur.files[p]; ok {
		return vinfo{filepath.Base(p), int64(len(in.data)), in.mode}, nil
	}
	if cur.dirs[p] {
		return vinfo{filepath.Base(p), 0, ModeDir | 0o755}, nil
	}
	return nil, perr("stat", path, syscall.ENOENT)
}

func Lstat(path string) (FileInfo, error) {
	if !virtual() {
		return os.Lstat(path)
	}
	return Stat(path)
}

func ReadFile(path string) ([]byte, error) {
	if !virtual() {
		return os.ReadFile(path)
	}
	point("readfile")
	p := filepath.Clean(path)
	in, ok := cur.files[p]
	if !ok {
		return nil, perr("open", path, syscall.ENOENT)
	}
	return append([]byte{}, in.data...), nil
}

func WriteFile(path string, data []byte, perm FileMode) error {
	if !virtual() {
		return os.WriteFile(path, data, perm)
	}
	f, err := OpenFile(path, O_WRONLY|O_CREATE|O_TRUNC, perm)
	if err != nil {
		return err
	}
	_, err = f.Write(data)
	if cerr := f.Close(); err == nil {
		err = cerr
	}
	return err
}

func Create(path string) (*File, error) { return OpenFile(path, O_RDWR|O_CREATE|O_TRUNC, 0o666) }
func Open(path string) (*File, error)   { return OpenFile(path, O_RDONLY, 0) }

func OpenFile(path string, flag int, perm FileMode) (*File, error) {
	if !virtual() {
		f, err := os.OpenFile(path, flag, perm)
		if err != nil {
			return nil, err
		}
		return &File{real: f}, nil
	}
	point("open")
	p := filepath.Clean(path)
	in, ok := cur.files[p]
	switch {
	case ok && flag&O_CREATE != 0 && flag&O_EXCL != 0:
		return nil, perr("open", path, syscall.EEXIST)
	case !ok && flag&O_CREATE == 0:
		return nil, perr("open", path, syscall.ENOENT)
	case !ok:
		if !cur.parentOK(p) {
			return nil, perr("open", path, syscall.ENOENT)
		}
		in = &inode{mode: perm &^ 0o022}
		cur.files[p] = in
	}
	if cur.dirs[p] {
		return nil, perr("open", path, syscall.EISDIR)
	}
	acc := flag & (O_RDONLY | O_WRONLY | O_RDWR)
	f := &File{in: in, path: p, app: flag&O_APPEND != 0, wr: acc == O_WRONLY || acc == O_RDWR, rd: acc == O_RDONLY || acc == O_RDWR}
	if flag&O_TRUNC != 0 && f.wr {
		in.data = nil
	}
	return f, nil
}

func CreateTemp(dir, pattern string) (*File, error) {
	if !virtual() {
		f, err := os.CreateTemp(dir, pattern)
		if err != nil {
			return nil, err
		}
		return &File{real: f}, nil
	}
	point("createtemp")
	if dir == "" {
		dir = "/tmp"
	}
	d := filepath.Clean(dir)
	if !cur.dirs[d] {
		return nil, perr("open", dir, syscall.ENOENT)
	}
	prefix, suffix := pattern, ""
	if i := strings.LastIndex(pattern, "*"); i >= 0 {
		prefix, suffix = pattern[:i], pattern[i+1:]
	}
	for {
		cur.seq++
		p := filepath.Join(d, fmt.Sprintf("%s%09d%s", prefix, cur.seq, suffix))
		if _, ok := cur.files[p]; ok {
			continue
		}
		in := &inode{mode: 0o600}
		cur.files[p] = in
		return &File{in: in, path: p, wr: true, rd: true}, nil
	}
}

func Rename(oldpath, newpath string) error {
	if !virtual() {
		return os.Rename(oldpath, newpath)
	}
	point("rename")
	o, n := filepath.Clean(oldpath), filepath.Clean(newpath)
	in, ok := cur.files[o]
	if !ok {
		return &LinkError{Op: "rename", Old: oldpath, New: newpath, Err: syscall.ENOENT}
	}
	if !cur.parentOK(n) {
		return &LinkError{Op: "rename", Old: oldpath, New: newpath, Err: syscall.ENOENT}
	}
	if o != n {
		cur.files[n] = in
		delete(cur.files, o)
	}
	return nil
}

func Link(oldname, newname string) error {
	if !virtual() {
		return os.Link(oldname, newname)
	}
	point("link")
	o, n := filepath.Clean(oldname), filepath.Clean(newname)
	in, ok := cur.files[o]
	if !ok {
		return &LinkError{Op: "link", Old: oldname, New: newname, Err: syscall.ENOENT}
	}
	if _, ok := cur.files[n]; ok {
		return &LinkError{Op: "link", Old: oldname, New: newname, Err: syscall.EEXIST}
	}
	if !cur.parentOK(n) {
		return &LinkError{Op: "link", Old: oldname, New: newname, Err: syscall.ENOENT}
	}
	cur.files[n] = in
	return nil
}

func Remove(path string) error {
	if !virtual() {
		return os.Remove(path)
	}
	point("remove")
	p := filepath.Clean(path)
	if _, ok := cur.files[p]; ok {
		delete(cur.files, p)
		return nil
	}
	if cur.dirs[p] {
		delete(cur.dirs, p)
		return nil
	}
	return perr("remove", path, syscall.ENOENT)
}

func RemoveAll(path string) error {
	if !virtual() {
		return os.RemoveAll(path)
	}
	point("removeall")
	p := filepath.Clean(path)
	for f := range cur.files {
		if f == p || strings.HasPrefix(f, p+"/") {
			delete(cur.files, f)
		}
	}
	for d := range cur.dirs {
		if d == p || strings.HasPrefix(d, p+"/") {
			delete(cur.dirs, d)
		}
	}
	return nil
}

func Chmod(path string, mode FileMode) error {
	if !virtual() {
		return os.Chmod(path, mode)
	}
	point("chmod")
	in, ok := cur.files[filepath.Clean(path)]
	if !ok {
		return perr("chmod", path, syscall.ENOENT)
	}
	in.mode = mode
	return nil
}

func Mkdir(path string, perm FileMode) error {
	if !virtual() {
		return os.Mkdir(path, perm)
	}
	point("mkdir")
	p := filepath.Clean(path)
	if cur.dirs[p] {
		return perr("mkdir", path, syscall.EEXIST)
	}
	if !cur.parentOK(p) {
		return perr("mkdir", path, syscall.ENOENT)
	}
	cur.dirs[p] = true
	return nil
}

func MkdirAll(path string, perm FileMode) error {
	if !virtual() {
		return os.MkdirAll(path, perm)
	}
	point("mkdirall")
	for p := filepath.Clean(path); ; p = filepath.Dir(p) {
		cur.dirs[p] = true
		if p == "/" || p == "." {
			return nil
		}
	}
}

func ReadDir(path string) ([]DirEntry, error) {
	if !virtual() {
		return os.ReadDir(path)
	}
	point("readdir")
	p := filepath.Clean(path)
	if !cur.dirs[p] {
		return nil, perr("open", path, syscall.ENOENT)
	}
	var names []string
	for f := range cur.files {
		if filepath.Dir(f) == p {
			names = append(names, f)
		}
	}
	sort.Strings(names)
	var out []DirEntry
	for _, f := range names {
		in := cur.files[f]
		out = append(out, fs.FileInfoToDirEntry(vinfo{filepath.Base(f), int64(len(in.data)), in.mode}))
	}
	return out, nil
}

// ---- File ----

func (f *File) Name() string {
	if f.real != nil {
		return f.real.Name()
	}
	return f.path
}

func (f *File) write1(b []byte) {
	if f.app {
		f.off = len(f.in.data)
	}
	for len(f.in.data) < f.off {
		f.in.data = append(f.in.data, 0)
	}
	n := copy(f.in.data[f.off:], b)
	f.in.data = append(f.in.data, b[n:]...)
	f.off += len(b)
}

func (f *File) Write(b []byte) (int, error) {
	if f.real != nil {
		return f.real.Write(b)
	}
	point("write")
	if f.closed {
		return 0, perr("write", f.path, ErrClosed)
	}
	if !f.wr {
		return 0, perr("write", f.path, syscall.EBADF)
	}
	h := len(b) / 2
	f.write1(b[:h])
	if h > 0 {
		point("write-rest")
	}
	f.write1(b[h:])
	return len(b), nil
}

func (f *File) WriteString(s string) (int, error) { return f.Write([]byte(s)) }

func (f *File) Read(b []byte) (int, error) {
	if f.real != nil {
		return f.real.Read(b)
	}
	point("read")
	if f.closed {
		return 0, perr("read", f.path, ErrClosed)
	}
	if f.off >= len(f.in.data) {
		return 0, io.EOF
	}
	n := copy(b, f.in.data[f.off:])
	f.off += n
	return n, nil
}

func (f *File) Close() error {
	if f.real != nil {
		return f.real.Close()
	}
	point("close")
	if f.closed {
		return perr("close", f.path, ErrClosed)
	}
	f.closed = true
	return nil
}

func (f *File) Sync() error {
	if f.real != nil {
		return f.real.Sync()
	}
	point("fsync")
	return nil
}

func (f *File) Chmod(mode FileMode) error {
	if f.real != nil {
		return f.real.Chmod(mode)
	}
	point("fchmod")
	f.in.mode = mode
	return nil
}

func (f *File) Stat() (FileInfo, error) {
	if f.real != nil {
		return f.real.Stat()
	}
	point("fstat")
	return vinfo{filepath.Base(f.path), int64(len(f.in.data)), f.in.mode}, nil
}

func (f *File) Truncate(size int64) error {
	if f.real != nil {
		return f.real.Truncate(size)
	}
	point("ftruncate")
	for int64(len(f.in.data)) < size {
		f.in.data = append(f.in.data, 0)
	}
	f.in.data = f.in.data[:size]
	return nil
}

func (f *File) Seek(offset int64, whence int) (int64, error) {
	if f.real != nil {
		return f.real.Seek(offset, whence)
	}
	switch whence {
	case io.SeekStart:
		f.off = int(offset)
	case io.SeekCurrent:
		f.off += int(offset)
	case io.SeekEnd:
		f.off = len(f.in.data) + int(offset)
	}
	return int64(f.off), nil
}
