package q

// Engine Q: go1.26 testing/synctest around the UNMODIFIED package mast. Every
// Persist.Store call of one MakeRoot parks on a channel; synctest.Wait() returns
// exactly when every goroutine of the bubble is durably blocked; the explorer then
// releases one parked call (optionally with an error) according to a DFS choice
// sequence. All completion orders x single failing writes for trees with up to 4
// dirty nodes. Cross-check of engine S on code that has not been instrumented.

import (
	"context"
	"encoding/json"
	"fmt"
	"os"
	"sort"
	"sync"
	"testing"
	"testing/synctest"

	"github.com/jrhy/mast"
	"verifharness/env"
	"verifharness/explore"
	"verifharness/ref"
	"verifharness/world"
)

var ctx = context.Background()

type parked struct {
	name    string
	release chan error
}

type result struct {
	Scenarios  int      `json:"scenarios"`
	Executions int64    `json:"executions"`
	MaxParked  int      `json:"max_parked_at_once"`
	Findings   []string `json:"findings"`
	Sample     []string `json:"sample"`
}

func linkOf(r *mast.Root) string {
	if r == nil || r.Link == nil {
		return ""
	}
	return *r.Link
}

// runOne executes MakeRoot once inside a bubble following choices (index into the
// sorted parked set at each quiescent point; beyond the prefix: 0). failName: the write that fails.
func runOne(t *testing.T, cfg *world.Config, hist []world.Op, choices []int, failName string) (points []int, finding string, trace []string, maxParked int) {
	synctest.Test(t, func(t *testing.T) {
		w, err := explore.Replay(cfg, hist, true)
		if err != nil {
			finding = "harness: " + err.Error()
			return
		}
		tree := w.Trees[0]
		var mu sync.Mutex
		var waiting []*parked
		w.Store.Gate = func(kind, name string) error {
			if kind != "store" {
				return nil
			}
			p := &parked{name: name, release: make(chan error)}
			mu.Lock()
			waiting = append(waiting, p)
			mu.Unlock()
			return <-p.release
		}
		type ret struct {
			root *mast.Root
			err  error
		}
		done := make(chan ret, 1)
		returned := false
		var got ret
		go func() {
			r, err := tree.MakeRoot(ctx)
			done <- ret{r, err}
		}()
		failed := false
		for step := 0; ; step++ {
			synctest.Wait()
			select {
			case got = <-done:
				returned = true
			default:
			}
			mu.Lock()
			sort.Slice(waiting, func(i, j int) bool { return waiting[i].name < waiting[j].name })
			n := len(waiting)
			mu.Unlock()
			if n > maxParked {
				maxParked = n
			}
			if returned {
				// the instant MakeRoot has returned: nothing reachable may still be parked or missing
				if got.err == nil {
					if _, err := (&ref.Codec{Format: cfg.Format}).Walk(cfg.KS, func(nm string) ([]byte, bool) { return w.Store.Has(nm) }, linkOf(got.root), nil); err != nil {
						finding = "returned-before-writes-completed: " + err.Error()
					}
					if failed {
						finding = "write-failed-but-success-reported"
					}
				} else if !failed {
					finding = "error-without-failed-write: " + got.err.Error()
				}
				// drain whatever is still parked so that the bubble can end
				mu.Lock()
				for _, p := range waiting {
					close(p.release)
				}
				waiting = nil
				mu.Unlock()
				synctest.Wait()
				return
			}
			if n == 0 {
				finding = "deadlock: MakeRoot has not returned and no Store call is parked"
				return
			}
			c := 0
			if step < len(choices) {
				c = choices[step]
			}
			if c >= n {
				finding = "harness: choice out of range"
				return
			}
			points = append(points, n)
			mu.Lock()
			p := waiting[c]
			waiting = append(waiting[:c], waiting[c+1:]...)
			mu.Unlock()
			trace = append(trace, p.name[:6])
			if p.name == failName {
				failed = true
				p.release <- env.ErrInjected
			} else {
				p.release <- nil
			}
		}
	})
	return
}

func TestQ(t *testing.T) {
	B, M := ref.FormatBinary, ref.FormatMarshaler
	cfgs := []*world.Config{
		world.UintCfg(2, []interface{}{uint(1), uint(2), uint(3), uint(4), uint(5)}, 1, B, "none"),
		world.LKeyCfg(2, []uint8{0, 2, 0, 1, 0, 1}, 1, M, "big"),
	}
	res := &result{}
	seenFinding := map[string]bool{}
	for _, cfg := range cfgs {
		var ops []world.Op
		for k := range cfg.Keys {
			ops = append(ops, world.Op{Kind: world.OpIns, K: k, V: 0}, world.Op{Kind: world.OpDel, K: k, V: 0})
		}
		ops = append(ops, world.Op{Kind: world.OpPersist}, world.Op{Kind: world.OpReload})
		e := &explore.Explorer{Cfg: cfg, Ops: ops, Mon: explore.NopMonitor{}, Reduced: true, KeepHists: true, MaxStates: 20000}
		e.Run()
		seen := map[string]bool{}
		for _, h := range e.Hists {
			w, err := explore.Replay(cfg, h, true)
			if err != nil {
				continue
			}
			w.Store.ResetLog()
			root, err := w.Trees[0].MakeRoot(ctx)
			if err != nil {
				continue
			}
			var names []string
			for _, c := range w.Store.Calls("store") {
				names = append(names, c.Name)
			}
			sort.Strings(names)
			d := len(names)
			if d == 0 || d > 4 {
				continue
			}
			key := fmt.Sprintf("%d/%d", d, root.Height)
			if seen[key] {
				continue
			}
			seen[key] = true
			for f := -1; f < d; f++ {
				failName := ""
				if f >= 0 {
					failName = names[f]
				}
				res.Scenarios++
				// DFS over all completion orders
				stack := [][]int{nil}
				for len(stack) > 0 {
					prefix := stack[len(stack)-1]
					stack = stack[:len(stack)-1]
					points, finding, trace, mp := runOne(t, cfg, h, prefix, failName)
					res.Executions++
					if mp > res.MaxParked {
						res.MaxParked = mp
					}
					if res.Sample == nil && len(trace) >= 3 {
						res.Sample = append([]string{fmt.Sprintf("tree %v, failing write %q, completion order:", cfg.DescribeHist(h), failName)}, trace...)
					}
					if finding != "" && !seenFinding[finding] {
						seenFinding[finding] = true
						res.Findings = append(res.Findings, fmt.Sprintf("%s | tree %v | failing %q | completion order %v", finding, cfg.DescribeHist(h), failName, trace))
					}
					for i := len(prefix); i < len(points); i++ {
						for alt := 1; alt < points[i]; alt++ {
							np := make([]int, i+1)
							copy(np, prefix)
							np[i] = alt
							stack = append(stack, np)
						}
					}
				}
			}
		}
	}
	b, _ := json.Marshal(res)
	if out := os.Getenv("VERIF_Q_OUT"); out != "" {
		os.WriteFile(out, b, 0o644)
	}
	fmt.Println(string(b))
}
