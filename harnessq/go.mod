module verifharnessq

go 1.26.8

require (
	github.com/jrhy/mast v0.0.0
	verifharness v0.0.0
)

require (
	github.com/hashicorp/golang-lru v1.0.2 // indirect
	github.com/minio/blake2b-simd v0.0.0-20160723061019-3f5f724cb5b1 // indirect
	golang.org/x/crypto v0.0.0-20210921155107-089bfa567519 // indirect
	golang.org/x/sys v0.29.0 // indirect
)

replace github.com/jrhy/mast => /repo

replace verifharness => ../harness

replace golang.org/x/sys => golang.org/x/sys v0.29.0
