package q

// Engine Q for C11: two trees on one store and one node cache, each driven by its own goroutine
// inside a testing/synctest bubble around the UNMODIFIED package. Every Persist call of either tree
// parks; at each quiescent point the explorer releases one parked call, chosen by a DFS over all
// orders. In half of the scenarios every Load of the first tree is answered with an error. Each tree
// must observe exactly what it observes when it runs alone (same answers of its own store calls).

import (
	"encoding/json"
	"fmt"
	"os"
	"sort"
	"sync"
	"testing"
	"testing/synctest"

	"github.com/jrhy/mast"
	"verifharness/env"
	"verifharness/ref"
	"verifharness/world"
)

type q11Op struct {
	kind string // get ins del
	k    int
}

func (o q11Op) String() string { return fmt.Sprintf("%s(%d)", o.kind, o.k) }

type q11Scenario struct {
	cold   bool
	failA  bool
	opsA   []q11Op
	opsB   []q11Op
	clones bool
}

type q11Parked struct {
	id      int
	kind    string
	name    string
	release chan error
}

// q11Run executes the scenario once. only >= 0: only that thread runs (the reference observation).
func q11Run(t *testing.T, cfg *world.Config, base []int, sc q11Scenario, choices []int, only int) (points []int, obs [2]string, finding string, trace []string) {
	synctest.Test(t, func(t *testing.T) {
		w, err := world.New(cfg)
		if err != nil {
			finding = "harness: " + err.Error()
			return
		}
		for _, k := range base {
			w.Apply(world.Op{Kind: world.OpIns, K: k, V: 0})
		}
		if r := w.Apply(world.Op{Kind: world.OpKeep, A: 0, B: 0}); r.Err != nil {
			finding = "harness: " + r.Err.Error()
			return
		}
		root := w.Roots[0]
		if sc.cold {
			w.Cache.Clear()
		}
		var mu sync.Mutex
		var waiting []*q11Parked
		gateOn := false
		gate := func(id int, kind, name string) error {
			mu.Lock()
			on := gateOn
			mu.Unlock()
			if !on {
				return nil
			}
			p := &q11Parked{id: id, kind: kind, name: name, release: make(chan error)}
			mu.Lock()
			waiting = append(waiting, p)
			mu.Unlock()
			return <-p.release
		}
		trees := make([]*mast.Mast, 2)
		for i := range trees {
			v := &env.View{S: w.Store, ID: i, VGate: gate}
			rc := w.RemoteConfig(w.Store, true)
			rc.StoreImmutablePartsWith = v
			if sc.clones && i == 1 {
				c, err := trees[0].Clone(ctx)
				if err != nil {
					finding = "harness: " + err.Error()
					return
				}
				trees[i] = &c
				continue
			}
			if trees[i], err = root.LoadMast(ctx, rc); err != nil {
				finding = "harness: " + err.Error()
				return
			}
		}
		mu.Lock()
		gateOn = true
		mu.Unlock()
		done := make([]chan string, 2)
		running := 0
		for i, ops := range [][]q11Op{sc.opsA, sc.opsB} {
			if only >= 0 && only != i {
				continue
			}
			i, ops := i, ops
			done[i] = make(chan string, 1)
			running++
			go func() {
				s := ""
				for _, op := range ops {
					var err error
					res := ""
					func() {
						defer func() {
							if p := recover(); p != nil {
								res = fmt.Sprintf("PANIC %v", p)
							}
						}()
						switch op.kind {
						case "get":
							var v string
							var ok bool
							ok, err = trees[i].Get(ctx, cfg.FreshKey(op.k), &v)
							res = fmt.Sprintf("%v:%s", ok, v)
						case "ins":
							err = trees[i].Insert(ctx, cfg.FreshKey(op.k), "b")
						case "del":
							err = trees[i].Delete(ctx, cfg.FreshKey(op.k), cfg.FreshVal(0))
						}
					}()
					if err != nil {
						res = "error"
					}
					s += fmt.Sprintf("[%s->%s]", op, res)
				}
				done[i] <- s
			}()
		}
		finished := 0
		for step := 0; finished < running; step++ {
			synctest.Wait()
			for i := range done {
				if done[i] != nil {
					select {
					case s := <-done[i]:
						obs[i] = s
						done[i] = nil
						finished++
					default:
					}
				}
			}
			if finished == running {
				break
			}
			mu.Lock()
			sort.Slice(waiting, func(a, b int) bool {
				if waiting[a].id != waiting[b].id {
					return waiting[a].id < waiting[b].id
				}
				return waiting[a].kind+waiting[a].name < waiting[b].kind+waiting[b].name
			})
			n := len(waiting)
			mu.Unlock()
			if n == 0 {
				finding = "deadlock: a tree's operation has not returned and none of the two trees has a store call parked"
				return
			}
			c := 0
			if step < len(choices) {
				c = choices[step]
			}
			if c >= n {
				finding = "harness: choice out of range"
				return
			}
			points = append(points, n)
			mu.Lock()
			p := waiting[c]
			waiting = append(waiting[:c], waiting[c+1:]...)
			mu.Unlock()
			trace = append(trace, fmt.Sprintf("t%d:%s:%s", p.id, p.kind, p.name[:4]))
			if sc.failA && p.id == 0 && p.kind == "load" {
				p.release <- env.ErrInjected
			} else {
				p.release <- nil
			}
		}
		mu.Lock()
		gateOn = false
		mu.Unlock()
		// what each tree holds in the end, read with nothing parked and nothing failing
		for i := range trees {
			if only >= 0 && only != i {
				continue
			}
			obs[i] += w.ReadContents(trees[i]).String()
		}
	})
	return
}

func TestQ11(t *testing.T) {
	// uint keys 0..9 at branch factor 2, all present but 3 and 6: height 3, so that one lookup needs several loads
	cfg := world.UintCfg(2, []interface{}{uint(0), uint(1), uint(2), uint(3), uint(4), uint(5), uint(6), uint(7), uint(8), uint(9)}, 1, ref.FormatBinary, "big")
	base := []int{0, 1, 2, 4, 5, 7, 8, 9}
	single := []q11Op{{"get", 1}, {"get", 5}, {"ins", 3}, {"del", 2}}
	res := &result{}
	seenFinding := map[string]bool{}
	for _, cold := range []bool{true, false} {
		for _, failA := range []bool{false, true} {
			for _, clones := range []bool{false, true} {
				if clones && cold {
					continue
				}
				for _, a := range single {
					for _, b := range single {
						sc := q11Scenario{cold: cold, failA: failA, clones: clones, opsA: []q11Op{a}, opsB: []q11Op{b, {"get", 0}}}
						var alone [2]string
						for i := 0; i < 2; i++ {
							_, o, f, _ := q11Run(t, cfg, base, sc, nil, i)
							if f != "" {
								res.Findings = append(res.Findings, fmt.Sprintf("%s | alone | %+v", f, sc))
							}
							alone[i] = o[i]
						}
						res.Scenarios++
						stack := [][]int{nil}
						for len(stack) > 0 {
							prefix := stack[len(stack)-1]
							stack = stack[:len(stack)-1]
							points, o, finding, trace := q11Run(t, cfg, base, sc, prefix, -1)
							res.Executions++
							if len(trace) > res.MaxParked {
								res.MaxParked = len(trace)
							}
							if finding == "" {
								for i := 0; i < 2; i++ {
									if o[i] != alone[i] {
										finding = fmt.Sprintf("tree-%d-observes-differently-than-alone: alone %s, with the other tree %s", i, alone[i], o[i])
									}
								}
							}
							if res.Sample == nil && len(trace) >= 4 {
								res.Sample = append([]string{fmt.Sprintf("scenario %+v, release order:", sc)}, trace...)
							}
							if finding != "" {
								key := finding
								if i := len("tree-0-observes-differently-than-alone"); len(key) > i {
									key = key[:i]
								}
								key += fmt.Sprint(cold, failA, clones)
								if !seenFinding[key] {
									seenFinding[key] = true
									res.Findings = append(res.Findings, fmt.Sprintf("%s | scenario %+v | release order %v", finding, sc, trace))
								}
							}
							for i := len(prefix); i < len(points); i++ {
								for alt := 1; alt < points[i]; alt++ {
									np := make([]int, i+1)
									copy(np, prefix)
									np[i] = alt
									stack = append(stack, np)
								}
							}
						}
					}
				}
			}
		}
	}
	b, _ := json.Marshal(res)
	if out := os.Getenv("VERIF_Q_OUT"); out != "" {
		os.WriteFile(out, b, 0o644)
	}
	fmt.Println(string(b))
}
