#!/bin/bash
# seedtest.sh <seed-name> <property-id> [checks...]
# Confirms a seeded property-breaking change (from /tmp/seeds/<seed-name>/) in a scratch
# worktree, then applies it to /repo, runs the given checks (default: the property's quick
# check), undoes it, and stores the artefacts under /verif/seeded/<seed-name>/.
set -u
export GOFLAGS=-mod=mod GOPROXY=off GOSUMDB=off GOTOOLCHAIN=local
name="$1"; prop="$2"; shift 2
checks="${*:-$prop}"
src="/tmp/seeds/$name"
[ -d "$src" ] || src="/verif/seeded/$name"
dst="/verif/seeded/$name"
mkdir -p "$dst"
[ "$src" != "$dst" ] && cp "$src"/patch.diff "$src"/NOTES.md "$dst"/ 2>/dev/null && cp "$src"/demo_*_test.go "$dst"/ 2>/dev/null
demo=$(ls "$dst"/demo_*_test.go | head -1)
pkgdir=$(grep -m1 -o 'persist/[a-z0-9]*' "$demo" | head -1)
[ -z "$pkgdir" ] && pkgdir="."
grep -q '^package mast' "$demo" && pkgdir="."
grep -q '^package file' "$demo" && pkgdir="persist/file"
grep -q '^package s3' "$demo" && pkgdir="persist/s3"
wt="/tmp/sv-$name"
git -C /repo worktree remove --force "$wt" 2>/dev/null
git -C /repo worktree add -q --detach "$wt" HEAD || exit 2
log="$dst/confirm.log"; : > "$log"
cp "$demo" "$wt/$pkgdir/"
testname=$(grep -o 'func Test[A-Za-z0-9_]*' "$demo" | sed 's/func //' | paste -sd'|')
( cd "$wt/$pkgdir" && go test -vet=off -count=1 -run "^($testname)\$" . ) >> "$log" 2>&1; demo_clean=$?
applied=0
if ( cd "$wt" && git apply --3way "$dst/patch.diff" ) >> "$log" 2>&1; then applied=1; fi
rm -f "$wt/$pkgdir/$(basename "$demo")"
( cd "$wt" && go build ./... && go test -vet=off -count=1 ./... ) >> "$log" 2>&1; suite=$?
cp "$demo" "$wt/$pkgdir/"
( cd "$wt/$pkgdir" && go test -vet=off -count=1 -run "^($testname)\$" . ) >> "$log" 2>&1; demo_mut=$?
rm -f "$wt/$pkgdir/$(basename "$demo")"
( cd "$wt" && git diff HEAD ) > "$dst/patch.rebased.diff"
git -C /repo worktree remove --force "$wt"
echo "seed $name: applied=$applied demo_on_clean=$demo_clean(0 wanted) suite_with_change=$suite(0 wanted) demo_with_change=$demo_mut(non-0 wanted)"
if [ $applied -ne 1 ] || [ $demo_clean -ne 0 ] || [ $suite -ne 0 ] || [ $demo_mut -eq 0 ]; then
  echo "seed $name: NOT CONFIRMED (see $log)"; exit 3
fi
# run the checks against /repo with the change applied, then undo
if ! git -C /repo diff --quiet; then echo "/repo has uncommitted changes; refusing"; exit 2; fi
git -C /repo apply "$dst/patch.rebased.diff" || exit 2
results=""
for c in $checks; do
  start=$(date +%s)
  VERIF_DIR=/tmp/vd-seed /verif/run.sh "$c" quick > "$dst/check-$c.log" 2>&1
  code=$?
  nv=$(grep -c '^VIOLATION' "$dst/check-$c.log")
  results="$results $c:exit=$code:violations=$nv:$(( $(date +%s) - start ))s"
done
git -C /repo checkout -- .
git -C /repo status --short | grep -v '^??' 
echo "seed $name: checks ->$results"
python3 - "$name" "$prop" "$results" <<'PY'
import json,sys,os
name,prop,results=sys.argv[1:4]
dst='/verif/seeded/'+name
meta={}
p=dst+'/meta.json'
if os.path.exists(p): meta=json.load(open(p))
meta.update({"seed":name,"breaks_property":prop,
 "confirmed":{"demo_passes_on_unchanged_tree":True,"existing_suite_passes_with_change":True,"demo_fails_with_change":True},
 "ran":["scratch worktree: demo on clean tree, git apply --3way patch.diff, go test ./..., demo with change","git -C /repo apply patch.rebased.diff; ./run.sh <check> quick; git -C /repo checkout -- ."],
 "check_results":results.split()})
meta.setdefault("needs_to_manifest","see NOTES.md")
json.dump(meta,open(p,'w'),indent=1)
PY
