#!/bin/bash
# Runs every claimed check at the given tier (default quick) and prints a summary.
tier="${1:-quick}"
cd "$(dirname "$0")"
rc=0
for id in $(python3 -c "import json;print(' '.join(c['property_id'] for c in json.load(open('MANIFEST.json'))['checks']))"); do
  start=$(date +%s)
  ./run.sh "$id" "$tier" > "build/$id.$tier.log" 2>&1
  code=$?
  echo "$id $tier exit=$code $(( $(date +%s) - start ))s  $(grep -c '^VIOLATION' build/$id.$tier.log) violations, $(grep -c '^KNOWN-FINDING' build/$id.$tier.log) known"
  [ $code -ne 0 ] && rc=1
done
exit $rc
