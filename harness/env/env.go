// Package env is the controlled environment the explorers own: a recording,
// fault-injecting Persist, node caches, and countable/faultable callbacks.
// Everything here goes through mast's public API only.
package env

import (
	"context"
	"fmt"
	"sort"
	"sync"

	"github.com/jrhy/mast"
)

// Call is one recorded environment call.
type Call struct {
	Kind  string // "store" | "load"
	Name  string
	Bytes []byte
	Err   bool
}

// ErrInjected is the error every injected fault returns. Its chain contains the library's own sentinel errors
// (what a store, comparator or marshaler that is itself built on mast hands up when one of *its* iterations or
// diffs ended: "node not upstream: %w"): a fault is a fault whatever it wraps, and code that asks
// errors.Is(err, ErrNoMoreDiffs) of an error that came out of the environment would take it for its own
// end-of-work signal.
var ErrInjected error = injectedFault{}

type injectedFault struct{}

func (injectedFault) Error() string { return "verif: injected fault" }
func (injectedFault) Is(target error) bool {
	return target == mast.ErrNoMoreDiffs || target == mast.ErrIterDone
}

// Store is a recording in-memory Persist with a fixed URL prefix.
type Store struct {
	mu      sync.Mutex
	Prefix  string
	M       map[string][]byte
	Log     []Call
	Logging bool
	// fault injection: fail the call whose (kind-specific) running index is listed
	FailLoadAt  map[int]bool
	FailStoreAt map[int]bool
	NLoad       int
	NStore      int
	// Retain keeps the caller's slice instead of copying it (what the library's own in-memory store
	// does): bytes that the caller overwrites after Store has returned then show up as corruption.
	Retain bool
	// Gate, if non-nil, is called before each Store/Load takes effect (schedulers park here).
	Gate func(kind, name string) error
}

func NewStore(prefix string) *Store {
	return &Store{Prefix: prefix, M: map[string][]byte{}}
}

var _ mast.Persist = (*Store)(nil)

func (s *Store) Store(ctx context.Context, name string, b []byte) error {
	if s.Gate != nil {
		if err := s.Gate("store", name); err != nil {
			s.mu.Lock()
			if s.Logging {
				s.Log = append(s.Log, Call{"store", name, append([]byte{}, b...), true})
			}
			s.NStore++
			s.mu.Unlock()
			return err
		}
	}
	s.mu.Lock()
	defer s.mu.Unlock()
	i := s.NStore
	s.NStore++
	fail := s.FailStoreAt[i]
	if s.Logging {
		s.Log = append(s.Log, Call{"store", name, append([]byte{}, b...), fail})
	}
	if fail {
		return ErrInjected
	}
	if s.Retain {
		s.M[name] = b
	} else {
		s.M[name] = append([]byte{}, b...)
	}
	return nil
}

func (s *Store) Load(ctx context.Context, name string) ([]byte, error) {
	if s.Gate != nil {
		if err := s.Gate("load", name); err != nil {
			s.mu.Lock()
			if s.Logging {
				s.Log = append(s.Log, Call{"load", name, nil, true})
			}
			s.NLoad++
			s.mu.Unlock()
			return nil, err
		}
	}
	s.mu.Lock()
	defer s.mu.Unlock()
	i := s.NLoad
	s.NLoad++
	fail := s.FailLoadAt[i]
	if s.Logging {
		s.Log = append(s.Log, Call{"load", name, nil, fail})
	}
	if fail {
		return nil, ErrInjected
	}
	b, ok := s.M[name]
	if !ok {
		return nil, fmt.Errorf("verif store %s: %q not found", s.Prefix, name)
	}
	return append([]byte{}, b...), nil
}

func (s *Store) NodeURLPrefix() string { return s.Prefix }

// ResetLog clears the log and counters and (re)starts logging.
func (s *Store) ResetLog() {
	s.mu.Lock()
	s.Log = nil
	s.NLoad, s.NStore = 0, 0
	s.Logging = true
	s.mu.Unlock()
}

// StopLog turns call recording off (long read-only phases would grow the log).
func (s *Store) StopLog() {
	s.mu.Lock()
	s.Log = nil
	s.Logging = false
	s.mu.Unlock()
}

func (s *Store) ClearFaults() {
	s.mu.Lock()
	s.FailLoadAt, s.FailStoreAt = nil, nil
	s.mu.Unlock()
}

// Calls returns a copy of the log filtered by kind ("" = all).
func (s *Store) Calls(kind string) []Call {
	s.mu.Lock()
	defer s.mu.Unlock()
	out := []Call{}
	for _, c := range s.Log {
		if kind == "" || c.Kind == kind {
			out = append(out, c)
		}
	}
	return out
}

func (s *Store) Has(name string) ([]byte, bool) {
	s.mu.Lock()
	defer s.mu.Unlock()
	b, ok := s.M[name]
	return b, ok
}

func (s *Store) Names() []string {
	s.mu.Lock()
	defer s.mu.Unlock()
	out := make([]string, 0, len(s.M))
	for k := range s.M {
		out = append(out, k)
	}
	sort.Strings(out)
	return out
}

// Cache kinds.
const (
	CacheNone  = "none"
	CacheBig   = "big"
	CacheTiny1 = "tiny1"
	CacheTiny2 = "tiny2"
)

// Cache is a dumpable NodeCache. cap<=0 means unbounded (never evicts). With a
// capacity it is a deterministic LRU. `Real`, if set, is mast's own ARC cache
// which is consulted in lock-step (the wrapper's view is used for dumping).
type Cache struct {
	mu    sync.Mutex
	Cap   int
	M     map[string]interface{}
	Order []string // LRU order, least recent first
	Real  mast.NodeCache
	Adds  []CacheAdd // every object ever handed to Add (diagnosis)
	Gate  func(kind, name string)
}

type CacheAdd struct {
	Key string
	Obj interface{}
}

func NewCache(kind string) *Cache {
	switch kind {
	case CacheNone:
		return nil
	case CacheBig:
		return &Cache{M: map[string]interface{}{}, Real: mast.NewNodeCache(1000)}
	case CacheTiny1:
		return &Cache{M: map[string]interface{}{}, Cap: 1}
	case CacheTiny2:
		return &Cache{M: map[string]interface{}{}, Cap: 2}
	}
	panic("unknown cache kind " + kind)
}

func (c *Cache) touch(k string) {
	for i, x := range c.Order {
		if x == k {
			c.Order = append(c.Order[:i], c.Order[i+1:]...)
			break
		}
	}
	c.Order = append(c.Order, k)
}

func (c *Cache) Add(key, value interface{}) {
	k := key.(string)
	if c.Gate != nil {
		c.Gate("cache.add", k)
	}
	c.mu.Lock()
	c.Adds = append(c.Adds, CacheAdd{k, value})
	if c.Real != nil {
		c.Real.Add(key, value)
	}
	c.M[k] = value
	c.touch(k)
	if c.Cap > 0 {
		for len(c.Order) > c.Cap {
			ev := c.Order[0]
			c.Order = c.Order[1:]
			delete(c.M, ev)
		}
	}
	c.mu.Unlock()
	// Add publishes an object to every other tree: what the caller does to that object
	// *after* Add returns is visible to them, so the return is a scheduling point too
	if c.Gate != nil {
		c.Gate("cache.add.done", k)
	}
}

func (c *Cache) Contains(key interface{}) bool {
	k := key.(string)
	if c.Gate != nil {
		c.Gate("cache.contains", k)
	}
	c.mu.Lock()
	defer c.mu.Unlock()
	_, ok := c.M[k]
	if c.Real != nil {
		rok := c.Real.Contains(key)
		if rok != ok {
			panic("verif harness: cache wrapper diverged from real cache (Contains)")
		}
	}
	return ok
}

func (c *Cache) Get(key interface{}) (interface{}, bool) {
	k := key.(string)
	if c.Gate != nil {
		c.Gate("cache.get", k)
	}
	c.mu.Lock()
	defer c.mu.Unlock()
	v, ok := c.M[k]
	if c.Real != nil {
		rv, rok := c.Real.Get(key)
		if rok != ok || (ok && rv != v) {
			panic("verif harness: cache wrapper diverged from real cache (Get)")
		}
	}
	if ok && c.Cap > 0 {
		c.touch(k)
	}
	return v, ok
}

// Clear drops every entry (a cache restart / full eviction: a legitimate environment event).
func (c *Cache) Clear() {
	if c == nil {
		return
	}
	c.mu.Lock()
	defer c.mu.Unlock()
	c.M = map[string]interface{}{}
	c.Order = nil
	if c.Real != nil {
		c.Real = mast.NewNodeCache(1000)
	}
}

// Snapshot returns the entries and (for evicting caches) the LRU order.
func (c *Cache) Snapshot() (map[string]interface{}, []string) {
	if c == nil {
		return nil, nil
	}
	c.mu.Lock()
	defer c.mu.Unlock()
	m := make(map[string]interface{}, len(c.M))
	for k, v := range c.M {
		m[k] = v
	}
	var ord []string
	if c.Cap > 0 {
		ord = append(ord, c.Order...)
	}
	return m, ord
}

// AsNodeCache converts to the interface, keeping nil nil.
func (c *Cache) AsNodeCache() mast.NodeCache {
	if c == nil {
		return nil
	}
	return c
}

// Counter wraps callbacks so the i-th call can fail.
type Counter struct {
	mu     sync.Mutex
	N      int
	FailAt map[int]bool
	// FailFrom > 0: every call numbered FailFrom-1 or later fails (a marshaler that stopped working)
	FailFrom int
}

func (c *Counter) Tick() error {
	c.mu.Lock()
	defer c.mu.Unlock()
	i := c.N
	c.N++
	if c.FailAt[i] || (c.FailFrom > 0 && i >= c.FailFrom-1) {
		return ErrInjected
	}
	return nil
}

func (c *Counter) Reset() {
	c.mu.Lock()
	c.N = 0
	c.FailAt = nil
	c.FailFrom = 0
	c.mu.Unlock()
}

// View is a second handle on a Store (same prefix, same objects) with an identity of its own: the
// calls of each tree of a concurrent scenario can be told apart, parked and answered separately.
type View struct {
	S     *Store
	ID    int
	VGate func(id int, kind, name string) error
}

var _ mast.Persist = (*View)(nil)

func (v *View) NodeURLPrefix() string { return v.S.NodeURLPrefix() }

func (v *View) Load(ctx context.Context, name string) ([]byte, error) {
	if v.VGate != nil {
		if err := v.VGate(v.ID, "load", name); err != nil {
			return nil, err
		}
	}
	return v.S.Load(ctx, name)
}

func (v *View) Store(ctx context.Context, name string, b []byte) error {
	if v.VGate != nil {
		if err := v.VGate(v.ID, "store", name); err != nil {
			return err
		}
	}
	return v.S.Store(ctx, name, b)
}
