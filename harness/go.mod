module verifharness

go 1.22.0

require (
	github.com/aws/aws-sdk-go v1.55.5
	github.com/jrhy/mast v0.0.0
	golang.org/x/crypto v0.0.0-20210921155107-089bfa567519
)

require (
	github.com/hashicorp/golang-lru v1.0.2 // indirect
	github.com/jmespath/go-jmespath v0.4.0 // indirect
	github.com/minio/blake2b-simd v0.0.0-20160723061019-3f5f724cb5b1 // indirect
	golang.org/x/sys v0.29.0 // indirect
	golang.org/x/tools v0.29.0
)

replace github.com/jrhy/mast => /repo

replace golang.org/x/sys => golang.org/x/sys v0.29.0
