// Command instr generates the instrumented copy of package mast for engine S:
// `import "sync"` -> the cooperative shim, `go` statements -> verifrt.Go, channel
// types and operations -> verifrt.Chan. It reads the repository's current non-test
// files, writes the rewritten files to an output directory and prints a
// `go build -overlay` JSON. Any concurrency construct it does not understand is a
// hard error (the caller then falls back and says so in its evidence).
package main

import (
	"bytes"
	"encoding/json"
	"fmt"
	"go/ast"
	"go/format"
	"go/parser"
	"go/token"
	"os"
	"path/filepath"
	"strings"

	"golang.org/x/tools/go/ast/astutil"
)

const rtPath = "github.com/jrhy/mast/verifrt"

func main() {
	if len(os.Args) < 5 {
		fmt.Fprintln(os.Stderr, "usage: instr <repo-dir> <out-dir> <rt-source-dir> <base-overlay.json|-> > overlay.json")
		os.Exit(2)
	}
	repo, out, rtSrc, base := os.Args[1], os.Args[2], os.Args[3], os.Args[4]
	os.MkdirAll(out, 0o755)
	overlay := map[string]string{}
	if base != "-" {
		var b struct{ Replace map[string]string }
		if data, err := os.ReadFile(base); err == nil {
			json.Unmarshal(data, &b)
			for k, v := range b.Replace {
				overlay[k] = v
			}
		}
	}
	ents, err := os.ReadDir(repo)
	if err != nil {
		fatal(err)
	}
	stats := map[string]int{}
	for _, e := range ents {
		n := e.Name()
		if e.IsDir() || !strings.HasSuffix(n, ".go") || strings.HasSuffix(n, "_test.go") {
			continue
		}
		src := filepath.Join(repo, n)
		fset := token.NewFileSet()
		f, err := parser.ParseFile(fset, src, nil, parser.ParseComments)
		if err != nil {
			fatal(err)
		}
		changed, err := rewrite(fset, f, stats)
		if err != nil {
			fatal(fmt.Errorf("%s: %w", n, err))
		}
		if !changed {
			continue
		}
		var buf bytes.Buffer
		if err := format.Node(&buf, fset, f); err != nil {
			fatal(fmt.Errorf("%s: print: %w", n, err))
		}
		dst := filepath.Join(out, n)
		if err := os.WriteFile(dst, buf.Bytes(), 0o644); err != nil {
			fatal(err)
		}
		overlay[src] = dst
	}
	// the runtime as a virtual sub-package of the module (with its own sub-packages)
	filepath.Walk(rtSrc, func(p string, info os.FileInfo, err error) error {
		if err == nil && !info.IsDir() && strings.HasSuffix(p, ".go") {
			rel, _ := filepath.Rel(rtSrc, p)
			overlay[filepath.Join(repo, "verifrt", rel)] = p
		}
		return nil
	})
	// the file backend: package os -> the virtual file system shim, if everything it uses is modelled
	if note := rewriteFileBackend(repo, out, filepath.Join(rtSrc, "vos"), overlay, stats); note != "" {
		fmt.Fprintln(os.Stderr, "INSTR-NOTE: file backend not instrumented:", note)
	}
	js, _ := json.MarshalIndent(map[string]interface{}{"Replace": overlay}, "", " ")
	fmt.Println(string(js))
	fmt.Fprintf(os.Stderr, "instr: rewritten %v\n", stats)
}

func fatal(err error) {
	fmt.Fprintln(os.Stderr, "INSTR-ERROR:", err)
	os.Exit(1)
}

func sel(x, name string) *ast.SelectorExpr {
	return &ast.SelectorExpr{X: ast.NewIdent(x), Sel: ast.NewIdent(name)}
}

func chanType(ct *ast.ChanType) ast.Expr {
	return &ast.StarExpr{X: &ast.IndexExpr{X: sel("verifrt", "Chan"), Index: ct.Value}}
}

func rewrite(fset *token.FileSet, f *ast.File, stats map[string]int) (bool, error) {
	changed := false
	needRT := false
	// import "sync" -> sync "github.com/jrhy/mast/verifrt"
	for _, imp := range f.Imports {
		switch strings.Trim(imp.Path.Value, `"`) {
		case "sync":
			if imp.Name != nil && imp.Name.Name != "sync" {
				return false, fmt.Errorf("aliased sync import not supported")
			}
			imp.Name = ast.NewIdent("sync")
			imp.Path.Value = `"` + rtPath + `"`
			changed = true
			stats["sync-import"]++
		case "sync/atomic":
			return false, fmt.Errorf("sync/atomic is not modelled by the cooperative runtime")
		}
	}
	var rerr error
	astutil.Apply(f, func(c *astutil.Cursor) bool {
		switch n := c.Node().(type) {
		case *ast.SelectStmt:
			rerr = fmt.Errorf("%s: select is not supported", fset.Position(n.Pos()))
			return false
		case *ast.RangeStmt:
			// ranging over a channel cannot be told apart syntactically without types; flagged below if a chan var
		}
		return true
	}, func(c *astutil.Cursor) bool {
		switch n := c.Node().(type) {
		case *ast.GoStmt:
			call := n.Call
			var stmts []ast.Stmt
			// evaluate arguments now, like a real go statement
			for i, a := range call.Args {
				tmp := ast.NewIdent(fmt.Sprintf("verifArg%d", i))
				stmts = append(stmts, &ast.AssignStmt{Lhs: []ast.Expr{tmp}, Tok: token.DEFINE, Rhs: []ast.Expr{a}})
				call.Args[i] = tmp
			}
			body := &ast.FuncLit{Type: &ast.FuncType{Params: &ast.FieldList{}}, Body: &ast.BlockStmt{List: []ast.Stmt{&ast.ExprStmt{X: call}}}}
			stmts = append(stmts, &ast.ExprStmt{X: &ast.CallExpr{Fun: sel("verifrt", "Go"), Args: []ast.Expr{body}}})
			if len(stmts) == 1 {
				c.Replace(stmts[0])
			} else {
				c.Replace(&ast.BlockStmt{List: stmts})
			}
			needRT, changed = true, true
			stats["go"]++
		case *ast.ChanType:
			if n.Dir != ast.SEND|ast.RECV {
				rerr = fmt.Errorf("%s: directional channel types are not supported", fset.Position(n.Pos()))
				return false
			}
			c.Replace(chanType(n))
			needRT, changed = true, true
			stats["chan-type"]++
		case *ast.SendStmt:
			c.Replace(&ast.ExprStmt{X: &ast.CallExpr{Fun: &ast.SelectorExpr{X: n.Chan, Sel: ast.NewIdent("Send")}, Args: []ast.Expr{n.Value}}})
			changed = true
			stats["send"]++
		case *ast.UnaryExpr:
			if n.Op == token.ARROW {
				name := "Recv"
				// v, ok := <-c  (assignment or definition with two targets)
				if as, ok := c.Parent().(*ast.AssignStmt); ok && len(as.Lhs) == 2 && len(as.Rhs) == 1 {
					name = "Recv2"
				}
				if vs, ok := c.Parent().(*ast.ValueSpec); ok && len(vs.Names) == 2 && len(vs.Values) == 1 {
					name = "Recv2"
				}
				c.Replace(&ast.CallExpr{Fun: &ast.SelectorExpr{X: n.X, Sel: ast.NewIdent(name)}})
				changed = true
				stats["recv"]++
			}
		case *ast.CallExpr:
			if id, ok := n.Fun.(*ast.Ident); ok {
				switch id.Name {
				case "make":
					// make(<chan type already rewritten>, n)
					if st, ok := n.Args[0].(*ast.StarExpr); ok {
						if ix, ok := st.X.(*ast.IndexExpr); ok {
							if s, ok := ix.X.(*ast.SelectorExpr); ok && s.Sel.Name == "Chan" {
								var size ast.Expr = &ast.BasicLit{Kind: token.INT, Value: "0"}
								if len(n.Args) > 1 {
									size = n.Args[1]
								}
								c.Replace(&ast.CallExpr{Fun: &ast.IndexExpr{X: sel("verifrt", "NewChan"), Index: ix.Index}, Args: []ast.Expr{size}})
								stats["make-chan"]++
							}
						}
					}
				case "close":
					if len(n.Args) == 1 {
						c.Replace(&ast.CallExpr{Fun: &ast.SelectorExpr{X: n.Args[0], Sel: ast.NewIdent("Close")}})
						changed = true
						stats["close"]++
					}
				}
			}
		}
		return true
	})
	if rerr != nil {
		return false, rerr
	}
	if needRT {
		astutil.AddNamedImport(token.NewFileSet(), f, "verifrt", rtPath)
	}
	// re-scan: nothing concurrent may remain
	var left error
	ast.Inspect(f, func(n ast.Node) bool {
		switch x := n.(type) {
		case *ast.GoStmt, *ast.SelectStmt, *ast.SendStmt, *ast.ChanType:
			left = fmt.Errorf("%s: construct %T survived instrumentation", fset.Position(n.Pos()), x)
		case *ast.UnaryExpr:
			if x.Op == token.ARROW {
				left = fmt.Errorf("%s: receive survived instrumentation", fset.Position(n.Pos()))
			}
		}
		return left == nil
	})
	return changed, left
}

const vosPath = rtPath + "/vos"

// exportedOf lists the exported top-level identifiers of the Go package in dir.
func exportedOf(dir string) map[string]bool {
	out := map[string]bool{}
	pkgs, err := parser.ParseDir(token.NewFileSet(), dir, nil, 0)
	if err != nil {
		return out
	}
	for _, p := range pkgs {
		for _, f := range p.Files {
			for _, d := range f.Decls {
				switch x := d.(type) {
				case *ast.FuncDecl:
					if x.Recv == nil && x.Name.IsExported() {
						out[x.Name.Name] = true
					}
				case *ast.GenDecl:
					for _, sp := range x.Specs {
						switch y := sp.(type) {
						case *ast.TypeSpec:
							if y.Name.IsExported() {
								out[y.Name.Name] = true
							}
						case *ast.ValueSpec:
							for _, n := range y.Names {
								if n.IsExported() {
									out[n.Name] = true
								}
							}
						}
					}
				}
			}
		}
	}
	return out
}

// rewriteFileBackend rewrites `import "os"` in persist/file to the shim, provided that every os.X the
// package uses exists in the shim and that it uses no other way to reach the file system.
func rewriteFileBackend(repo, out, vosDir string, overlay map[string]string, stats map[string]int) string {
	dir := filepath.Join(repo, "persist", "file")
	ents, err := os.ReadDir(dir)
	if err != nil {
		return err.Error()
	}
	have := exportedOf(vosDir)
	if len(have) == 0 {
		return "shim sources not found"
	}
	type job struct {
		src string
		f   *ast.File
		fs  *token.FileSet
	}
	var jobs []job
	for _, e := range ents {
		n := e.Name()
		if e.IsDir() || !strings.HasSuffix(n, ".go") || strings.HasSuffix(n, "_test.go") {
			continue
		}
		src := filepath.Join(dir, n)
		fset := token.NewFileSet()
		f, err := parser.ParseFile(fset, src, nil, parser.ParseComments)
		if err != nil {
			return err.Error()
		}
		osName := ""
		for _, imp := range f.Imports {
			switch strings.Trim(imp.Path.Value, `"`) {
			case "os":
				osName = "os"
				if imp.Name != nil {
					osName = imp.Name.Name
				}
			case "io/ioutil", "syscall", "golang.org/x/sys/unix", "os/exec", "io/fs", "sync", "sync/atomic":
				return n + " imports " + imp.Path.Value + ", which the shim does not model"
			}
		}
		if osName == "" {
			continue
		}
		bad := ""
		ast.Inspect(f, func(nd ast.Node) bool {
			if s, ok := nd.(*ast.SelectorExpr); ok {
				if id, ok := s.X.(*ast.Ident); ok && id.Name == osName && id.Obj == nil && !have[s.Sel.Name] {
					bad = "os." + s.Sel.Name
				}
			}
			if g, ok := nd.(*ast.GoStmt); ok {
				bad = fmt.Sprintf("go statement at %s", fset.Position(g.Pos()))
			}
			return bad == ""
		})
		if bad != "" {
			return n + " uses " + bad + ", which the shim does not model"
		}
		for _, imp := range f.Imports {
			if strings.Trim(imp.Path.Value, `"`) == "os" {
				imp.Name = ast.NewIdent(osName)
				imp.Path.Value = `"` + vosPath + `"`
			}
		}
		jobs = append(jobs, job{src, f, fset})
	}
	os.MkdirAll(filepath.Join(out, "persist-file"), 0o755)
	for _, j := range jobs {
		var buf bytes.Buffer
		if err := format.Node(&buf, j.fs, j.f); err != nil {
			return err.Error()
		}
		dst := filepath.Join(out, "persist-file", filepath.Base(j.src))
		if err := os.WriteFile(dst, buf.Bytes(), 0o644); err != nil {
			return err.Error()
		}
		overlay[j.src] = dst
		stats["file-backend-os-import"]++
	}
	return ""
}
