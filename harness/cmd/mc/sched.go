//go:build sched

package main

import "verifharness/checks"

func init() {
	subcommands["c03-shard"] = checks.C03Shard
	subcommands["c11-shard"] = checks.C11Shard
}
