// Command mc is the entry point of all checks: `mc <property-id>`; tier and seed
// come from VERIF_TIER / VERIF_SEED. `mc replay <file>` re-executes a violation.
package main

import (
	"fmt"
	"os"
	"runtime/debug"

	"verifharness/checks"
	"verifharness/report"
)

type check struct {
	level string
	fn    func(*report.Run)
}

var registry = map[string]check{
	"C01": {"model_checking", checks.C01},
	"C02": {"model_checking", checks.C02},
	"C03": {"model_checking", checks.C03},
	"C04": {"model_checking", checks.C04},
	"C05": {"model_checking", checks.C05},
	"C06": {"model_checking", checks.C06},
	"C07": {"model_checking", checks.C07},
	"C08": {"model_checking", checks.C08},
	"C14": {"exploration", checks.C14},
	"C15": {"model_checking", checks.C15},
	"C09": {"model_checking", checks.C09},
	"C10": {"model_checking", checks.C10},
	"C11": {"model_checking", checks.C11},
	"C12": {"fault_enumeration", checks.C12},
	"C13": {"model_checking", checks.C13},
	"C16": {"model_checking", checks.C16},
	"C17": {"fault_enumeration", checks.C17},
	"C18": {"model_checking", checks.C18},
	"C19": {"exploration", checks.C19},
}

// subcommands registered by optional (build-tagged) files.
var subcommands = map[string]func([]string) int{}

// builtAgainst returns the directory the module under test was taken from when this binary was built.
func builtAgainst() string {
	bi, ok := debug.ReadBuildInfo()
	if !ok {
		return ""
	}
	for _, d := range bi.Deps {
		if d.Path == "github.com/jrhy/mast" && d.Replace != nil {
			return d.Replace.Path
		}
	}
	return ""
}

func main() {
	// the binary must have been built from the tree it is asked to judge (run.sh rebuilds on every invocation;
	// a stale or mis-pointed build would silently judge another copy)
	if want := os.Getenv("VERIF_REPO"); want != "" {
		if got := builtAgainst(); got != "" && got != want {
			fmt.Printf("HARNESS-ERROR: this binary was built against %s, not against %s\n", got, want)
			os.Exit(2)
		}
	}
	if len(os.Args) < 2 {
		fmt.Println("usage: mc <property-id> | replay <file>")
		os.Exit(2)
	}
	if os.Args[1] == "c11-race" {
		os.Exit(checks.C11Race(os.Args[2:]))
	}
	if os.Args[1] == "c03-file-child" {
		os.Exit(checks.C03FileChild(os.Args[2:]))
	}
	if os.Args[1] == "c17-child" {
		os.Exit(checks.C17Child(os.Args[2:]))
	}
	if f, ok := subcommands[os.Args[1]]; ok {
		os.Exit(f(os.Args[2:]))
	}
	if os.Args[1] == "c14-gen" {
		os.Exit(checks.C14Gen())
	}
	if os.Args[1] == "replay" {
		for id, c := range registry {
			checks.GenericChecks[id] = c.fn
		}
		os.Exit(checks.Replay(os.Args[2]))
	}
	c, ok := registry[os.Args[1]]
	if !ok {
		fmt.Printf("unknown check %q\n", os.Args[1])
		os.Exit(2)
	}
	run := report.NewRun(os.Args[1], c.level)
	c.fn(run)
	os.Exit(run.Finish())
}
