// Package report turns findings into the interface the harness expects:
// evidence JSON, replay files, VIOLATION / KNOWN-FINDING lines, exit status.
package report

import (
	"bufio"
	"crypto/sha256"
	"encoding/json"
	"fmt"
	"os"
	"path/filepath"
	"regexp"
	"sort"
	"strconv"
	"strings"
	"time"
)

// VerifDir is where evidence, replays and the known-findings file live.
var VerifDir = func() string {
	if d := os.Getenv("VERIF_DIR"); d != "" {
		return d
	}
	return "/verif"
}()

// Violation is one reported signature.
type Violation struct {
	Property string      `json:"property"`
	Sig      string      `json:"sig"`
	What     string      `json:"what"`
	Detail   string      `json:"detail,omitempty"`
	Config   string      `json:"config,omitempty"`
	Check    string      `json:"check"` // sub-check name used by `replay`
	History  []string    `json:"history,omitempty"`
	Replay   interface{} `json:"replay,omitempty"` // machine-readable replay payload
	Count    int64       `json:"count"`
	GoTest   string      `json:"go_test,omitempty"`
}

// HomeDir is where the committed inputs live (KNOWN_FINDINGS.txt, golden vectors): the
// directory of run.sh. It differs from VerifDir only when outputs are redirected.
var HomeDir = func() string {
	if d := os.Getenv("VERIF_HOME"); d != "" {
		return d
	}
	return VerifDir
}()

// Run accumulates what one check invocation covered.
type Run struct {
	Property string
	Tier     string
	Seed     int64
	Level    string // model_checking | fault_enumeration | exploration
	Start    time.Time

	States      int64
	Transitions int64
	Validated   int64
	Evals       int64
	Distinct    int64
	Rule        string
	Exhaustive  bool
	Samples     []interface{}
	Extra       map[string]interface{}
	Assumptions []string
	Parts       []map[string]interface{} // per-configuration breakdown

	viol map[string]*Violation
	errs []string
}

// Sigs returns the signatures recorded so far (used by the generic replay).
func (r *Run) Sigs() map[string]*Violation { return r.viol }

func NewRun(property, level string) *Run {
	tier := os.Getenv("VERIF_TIER")
	if tier != "thorough" {
		tier = "quick"
	}
	seed, _ := strconv.ParseInt(os.Getenv("VERIF_SEED"), 10, 64)
	return &Run{Property: property, Tier: tier, Seed: seed, Level: level, Start: time.Now(),
		Exhaustive: true, Extra: map[string]interface{}{}, viol: map[string]*Violation{}}
}

func (r *Run) Thorough() bool { return r.Tier == "thorough" }

// Add records a violation (merged by signature; the shortest history wins).
func (r *Run) Add(v Violation) {
	v.Property = r.Property
	old := r.viol[v.Sig]
	if old == nil {
		if v.Count == 0 {
			v.Count = 1
		}
		r.viol[v.Sig] = &v
		return
	}
	c := old.Count + max64(v.Count, 1)
	if len(v.History) < len(old.History) {
		*old = v
	}
	old.Count = c
}

func max64(a, b int64) int64 {
	if a > b {
		return a
	}
	return b
}

// HarnessError records a failure of the machinery itself (exit 2, never a VIOLATION).
func (r *Run) HarnessError(format string, a ...interface{}) {
	r.errs = append(r.errs, fmt.Sprintf(format, a...))
}

func (r *Run) AddSample(s interface{}) {
	if len(r.Samples) < 12 {
		r.Samples = append(r.Samples, s)
	}
}

// Known is one line of KNOWN_FINDINGS.txt.
type Known struct {
	Kind     string // known | fixed
	Property string
	Sig      string
	Text     string
}

// LoadKnown parses /verif/KNOWN_FINDINGS.txt (never written at run time).
func LoadKnown() []Known {
	f, err := os.Open(filepath.Join(HomeDir, "KNOWN_FINDINGS.txt"))
	if err != nil {
		return nil
	}
	defer f.Close()
	var out []Known
	sc := bufio.NewScanner(f)
	sc.Buffer(make([]byte, 1<<20), 1<<20)
	for sc.Scan() {
		line := strings.TrimSpace(sc.Text())
		if line == "" || strings.HasPrefix(line, "#") {
			continue
		}
		var k Known
		switch {
		case strings.HasPrefix(line, "known:"):
			k.Kind = "known"
			line = strings.TrimSpace(line[len("known:"):])
		case strings.HasPrefix(line, "fixed:"):
			k.Kind = "fixed"
			line = strings.TrimSpace(line[len("fixed:"):])
		default:
			continue
		}
		fields := strings.Fields(line)
		rest := []string{}
		for _, f := range fields {
			switch {
			case strings.HasPrefix(f, "property=") && k.Property == "":
				k.Property = f[len("property="):]
			case strings.HasPrefix(f, "sig=") && k.Sig == "":
				k.Sig = f[len("sig="):]
			default:
				rest = append(rest, f)
			}
		}
		k.Text = strings.Join(rest, " ")
		out = append(out, k)
	}
	return out
}

func sigFile(property, sig string) string {
	h := sha256.Sum256([]byte(sig))
	return fmt.Sprintf("%s-%x.json", property, h[:6])
}

// Finish writes evidence and replays, prints verdict lines, returns the exit code.
func (r *Run) Finish() int {
	known := map[string]Known{}
	for _, k := range LoadKnown() {
		if k.Kind == "known" && k.Property == r.Property {
			known[k.Sig] = k
		}
	}
	sigs := make([]string, 0, len(r.viol))
	for s := range r.viol {
		sigs = append(sigs, s)
	}
	sort.Strings(sigs)
	newViol := 0
	knownSeen := 0
	os.MkdirAll(filepath.Join(VerifDir, "replays"), 0o755)
	for _, s := range sigs {
		v := r.viol[s]
		if k, ok := known[s]; ok {
			knownSeen++
			fmt.Printf("KNOWN-FINDING: property=%s %s [sig=%s occurrences=%d]\n", r.Property, k.Text, s, v.Count)
			continue
		}
		newViol++
		path := filepath.Join(VerifDir, "replays", sigFile(r.Property, s))
		b, _ := json.MarshalIndent(v, "", " ")
		if err := os.WriteFile(path, b, 0o644); err != nil {
			fmt.Printf("warning: cannot write replay %s: %v\n", path, err)
		}
		fmt.Printf("VIOLATION property=%s replay=%s\n", r.Property, path)
		fmt.Printf("  sig=%s\n  what: %s\n  config: %s\n  history: %v\n  detail: %s\n  occurrences: %d\n", s, v.What, v.Config, v.History, v.Detail, v.Count)
	}
	wall := time.Since(r.Start).Seconds()
	cov := map[string]interface{}{
		"exhaustive": r.Exhaustive && len(r.errs) == 0,
		"samples":    r.Samples,
	}
	if len(r.Samples) == 0 {
		cov["samples"] = []interface{}{"(no case was executed)"}
	}
	switch r.Level {
	case "model_checking":
		cov["states"] = r.States
		cov["transitions"] = r.Transitions
		cov["traces_validated_against_impl"] = r.Validated
		if r.Evals > 0 {
			cov["evaluations"] = r.Evals
			cov["distinct_nontrivial"] = r.Distinct
		}
	default:
		cov["evaluations"] = r.Evals
		cov["distinct_nontrivial"] = r.Distinct
		if r.States > 0 {
			cov["states"] = r.States
			cov["transitions"] = r.Transitions
		}
	}
	if r.Rule != "" {
		cov["rule"] = r.Rule
	}
	for k, v := range r.Extra {
		cov[k] = v
	}
	if len(r.Parts) > 0 {
		cov["parts"] = r.Parts
	}
	cov["known_findings_reobserved"] = knownSeen
	if len(r.errs) > 0 {
		cov["harness_errors"] = r.errs
	}
	ev := map[string]interface{}{
		"property_id": r.Property,
		"tier":        r.Tier,
		"seed":        r.Seed,
		"level":       r.Level,
		"coverage":    cov,
		"assumptions": r.Assumptions,
		"wall_s":      wall,
		"violations":  newViol,
	}
	if r.Assumptions == nil {
		ev["assumptions"] = []string{}
	}
	os.MkdirAll(filepath.Join(VerifDir, "evidence"), 0o755)
	b, _ := json.MarshalIndent(ev, "", " ")
	evPath := filepath.Join(VerifDir, "evidence", r.Property+".json")
	if err := os.WriteFile(evPath, b, 0o644); err != nil {
		fmt.Printf("cannot write evidence: %v\n", err)
		return 2
	}
	fmt.Printf("%s %s: level=%s states=%d transitions=%d evaluations=%d distinct=%d exhaustive=%v known=%d violations=%d wall=%.1fs\n",
		r.Property, r.Tier, r.Level, r.States, r.Transitions, r.Evals, r.Distinct, cov["exhaustive"], knownSeen, newViol, wall)
	if len(r.errs) > 0 {
		for _, e := range r.errs {
			fmt.Printf("HARNESS-ERROR: %s\n", e)
		}
		if newViol == 0 {
			return 2
		}
	}
	if newViol > 0 {
		return 1
	}
	return 0
}

var (
	reName = regexp.MustCompile(`[A-Za-z0-9_-]{43}`)
	rePtr  = regexp.MustCompile(`0x[0-9a-f]+`)
	reNum  = regexp.MustCompile(`-?[0-9]+`)
	reSp   = regexp.MustCompile(`\s+`)
)

// Norm normalises an error/panic text for use in a signature: node names,
// pointers and numbers are abstracted, whitespace becomes '_'.
func Norm(s string) string {
	s = reName.ReplaceAllString(s, "<name>")
	s = rePtr.ReplaceAllString(s, "<ptr>")
	s = reNum.ReplaceAllString(s, "N")
	s = reSp.ReplaceAllString(strings.TrimSpace(s), "_")
	if len(s) > 160 {
		s = s[:160]
	}
	return s
}
