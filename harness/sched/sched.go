//go:build sched

// Package sched is the explorer of engine S: a stateless depth-first search over
// the scheduling choices of the cooperative runtime (verifrt) with an iterative
// preemption bound, in the style of CHESS.
package sched

import (
	"fmt"

	"github.com/jrhy/mast/verifrt"
)

// Outcome is what one execution observed.
type Outcome struct {
	Obs      string   // canonical observation (distinct outcomes are counted)
	Findings []string // "sig\x00what\x00detail"
}

// Setup is called before every execution, outside the scheduler (real goroutines,
// real synchronisation), to build a fresh system. The returned body runs inside
// thread 0 under the scheduler and itself returns a function that is evaluated
// after every thread has finished (again outside the scheduler).
type Setup func() (body func() (post func(res *verifrt.Result) Outcome))

type Explorer struct {
	Bound     int // maximal number of preemptions
	MaxPoints int // per execution
	Budget    int64

	Schedules  int64
	MaxSeen    int
	Outcomes   map[string]int64
	Findings   map[string]FindingAt
	Capped     bool
	Divergence string
	Sample     []string // one explored schedule, written out: "thread:operation" per scheduling point
}

type FindingAt struct {
	What, Detail string
	Choices      []int
	Count        int64
}

func (e *Explorer) runOnce(setup Setup, prefix []int) (*verifrt.Result, Outcome) {
	var post func(*verifrt.Result) Outcome
	body := setup()
	res := verifrt.Run(prefix, e.MaxPoints, func() { post = body() })
	var out Outcome
	if res.Divergence != "" {
		return res, out
	}
	if post != nil {
		out = post(res)
	} else {
		// thread 0 never reached its end (deadlock, or a panic elsewhere)
		out.Obs = "main-did-not-finish"
	}
	if res.Deadlock {
		out.Findings = append(out.Findings, "deadlock\x00no thread is enabled but not all have finished\x00"+describe(res))
	}
	if res.Panic != nil {
		out.Findings = append(out.Findings, fmt.Sprintf("panic-in-thread\x00a panic escaped a goroutine\x00thread %d: %v", res.PanicTID, res.Panic))
	}
	return res, out
}

func describe(res *verifrt.Result) string {
	s := ""
	for i, p := range res.Points {
		if i > 60 {
			s += " ..."
			break
		}
		s += fmt.Sprintf(" %d:%s", p.Enabled[p.Chosen], p.Desc)
	}
	return s
}

// Explore enumerates every schedule with at most Bound preemptions.
func (e *Explorer) Explore(body Setup) {
	e.Outcomes = map[string]int64{}
	e.Findings = map[string]FindingAt{}
	type frame struct{ prefix []int }
	stack := []frame{{nil}}
	for len(stack) > 0 {
		fr := stack[len(stack)-1]
		stack = stack[:len(stack)-1]
		if e.Budget > 0 && e.Schedules >= e.Budget {
			e.Capped = true
			return
		}
		res, out := e.runOnce(body, fr.prefix)
		if res.Divergence != "" {
			e.Divergence = fmt.Sprintf("prefix %v: %s", fr.prefix, res.Divergence)
			return
		}
		e.Schedules++
		if len(res.Points) > e.MaxSeen {
			e.MaxSeen = len(res.Points)
		}
		e.Outcomes[out.Obs]++
		if len(fr.prefix) > 0 && (e.Sample == nil || len(res.Points) < len(e.Sample)) || e.Sample == nil {
			e.Sample = nil
			for _, p := range res.Points {
				e.Sample = append(e.Sample, fmt.Sprintf("t%d:%s", p.Enabled[p.Chosen], p.Desc))
			}
		}
		choices := make([]int, len(res.Points))
		for i, p := range res.Points {
			choices[i] = p.Chosen
		}
		for _, f := range out.Findings {
			var sig, what, det string
			parts := splitN(f)
			sig, what, det = parts[0], parts[1], parts[2]
			fa, ok := e.Findings[sig]
			if !ok || len(choices) < len(fa.Choices) {
				fa.What, fa.Detail, fa.Choices = what, det, append([]int{}, choices...)
			}
			fa.Count++
			e.Findings[sig] = fa
		}
		// branch: alternatives at every point after the prefix
		pre := 0
		for i := 0; i < len(res.Points); i++ {
			p := res.Points[i]
			if i >= len(fr.prefix) {
				for alt := 1; alt < len(p.Enabled); alt++ {
					cost := pre
					if p.CurEnabled {
						cost++
					}
					if cost > e.Bound {
						break
					}
					np := make([]int, i+1)
					copy(np, choices[:i])
					np[i] = alt
					stack = append(stack, frame{np})
				}
			}
			if p.Chosen != 0 && p.CurEnabled {
				pre++
			}
		}
	}
}

func splitN(s string) [3]string {
	var out [3]string
	k := 0
	start := 0
	for i := 0; i < len(s) && k < 2; i++ {
		if s[i] == 0 {
			out[k] = s[start:i]
			k++
			start = i + 1
		}
	}
	out[k] = s[start:]
	return out
}
