package checks

import (
	"bytes"
	"fmt"
	"strings"
	"sync/atomic"

	"github.com/jrhy/mast"
	"verifharness/env"
	"verifharness/explore"
	"verifharness/ref"
	"verifharness/report"
	"verifharness/world"
)

// bodyLengthSweep: every element-body length a one- or two-byte length prefix can announce, and the edges of the
// three- and four-byte ones. For every L in 0..16 600 (binary format; a spread of them for v1marshaler) a
// tree holding a value whose encoded body is exactly L+2 bytes (a quoted string of L characters) next to two short
// ones, and - up to 2 100 - a tree holding a string key of that length between two short keys and a []byte value
// of L bytes, is persisted and then read *cold* (fresh handle, no cache): LoadMast, Get of every key, a full Iter,
// Size. The small universes write bodies of a few bytes; a decoder that mis-reads one particular length (a fast
// path for short prefixes, a mask forgotten) is wrong for every tree that holds such an element and for no other.
func bodyLengthSweep(run *report.Run, check string, acc *pairAcc) {
	var lens []int
	for l := 0; l <= 16600; l++ {
		lens = append(lens, l)
	}
	for k := uint(15); k <= 21; k++ {
		for d := -3; d <= 1; d++ {
			lens = append(lens, (1<<k)+d)
		}
	}
	if run.Thorough() {
		for d := -3; d <= 1; d++ {
			lens = append(lens, (1<<28)+d)
		}
	}
	var trees, evals int64
	for _, format := range bothFormats {
		format := format
		nf := mast.V115Binary
		if format == ref.FormatMarshaler {
			nf = mast.V1Marshaler
		}
		cfg := &world.Config{Name: "body-lengths/int keys, string values of every length/" + format}
		parallelFor(len(lens), func(i int) {
			L := lens[i]
			if format == ref.FormatMarshaler && L > 600 && L%257 != 0 && L&(L+3) > 4 {
				return
			}
			fill := byte('a' + L%26)
			long := strings.Repeat(string([]byte{fill}), L)
			bad := func(sym, detail string) {
				acc.add(cfg, check, []explore.Finding{{Sig: check + "|body-length|" + sym, What: "a tree holding an element whose encoded body has one particular length does not read back from the store", Detail: detail}}, []string{cfg.Name, fmt.Sprintf("insert 1:\"s\", 2:<string of %d characters>, 3:\"t\"; MakeRoot; LoadMast on a fresh handle without cache; Get 1, 2, 3; Iter; Size", L)})
			}
			st := env.NewStore("mem://bodylen/")
			rc := func() *mast.RemoteConfig {
				return &mast.RemoteConfig{KeysLike: 0, ValuesLike: "", StoreImmutablePartsWith: st}
			}
			root := mast.NewRoot(&mast.CreateRemoteOptions{BranchFactor: 4, NodeFormat: nf})
			var r2 *mast.Root
			res := guardRes(func() error {
				t, err := root.LoadMast(ctx, rc())
				if err != nil {
					return err
				}
				for k, v := range map[int]string{1: "s", 2: long, 3: "t"} {
					if err := t.Insert(ctx, k, v); err != nil {
						return err
					}
				}
				r2, err = t.MakeRoot(ctx)
				return err
			})
			if res.Err != nil || res.Panic != nil {
				bad("persist|"+resClass(res), fmt.Sprintf("L=%d: %v", L, res))
				return
			}
			atomic.AddInt64(&trees, 1)
			res = guardRes(func() error {
				t, err := r2.LoadMast(ctx, rc())
				if err != nil {
					return fmt.Errorf("LoadMast: %w", err)
				}
				for k, want := range map[int]string{1: "s", 2: long, 3: "t"} {
					var got string
					ok, err := t.Get(ctx, k, &got)
					if err != nil {
						return fmt.Errorf("Get(%d): %w", k, err)
					}
					if !ok || got != want {
						return fmt.Errorf("Get(%d): found=%v, %d characters, want %d", k, ok, len(got), len(want))
					}
				}
				n := 0
				if err := t.Iter(ctx, func(k, v interface{}) error {
					n++
					if k.(int) == 2 && v.(string) != long {
						return fmt.Errorf("Iter: value of key 2 has %d characters, want %d", len(v.(string)), L)
					}
					return nil
				}); err != nil {
					return err
				}
				if n != 3 || t.Size() != 3 {
					return fmt.Errorf("Iter yielded %d entries, Size %d, want 3", n, t.Size())
				}
				return nil
			})
			atomic.AddInt64(&evals, 1)
			if res.Err != nil || res.Panic != nil {
				bad("cold-read|value|"+format+"|"+resClass(res), fmt.Sprintf("value body of %d bytes: %v", L+2, res))
			}
			if L > 2100 {
				return
			}
			// the same length as a string key (between two short keys) carrying a []byte value of L bytes
			st2 := env.NewStore("mem://bodylen/")
			rc2 := func() *mast.RemoteConfig {
				return &mast.RemoteConfig{KeysLike: "", ValuesLike: []byte{}, StoreImmutablePartsWith: st2}
			}
			blob := bytes.Repeat([]byte{fill}, L)
			keys := map[string][]byte{"A": {1}, "b" + long: blob, "c": {}}
			root = mast.NewRoot(&mast.CreateRemoteOptions{BranchFactor: 4, NodeFormat: nf})
			res = guardRes(func() error {
				t, err := root.LoadMast(ctx, rc2())
				if err != nil {
					return err
				}
				for k, v := range keys {
					if err := t.Insert(ctx, k, v); err != nil {
						return err
					}
				}
				r2, err = t.MakeRoot(ctx)
				if err != nil {
					return err
				}
				t, err = r2.LoadMast(ctx, rc2())
				if err != nil {
					return fmt.Errorf("LoadMast: %w", err)
				}
				for k, want := range keys {
					var got []byte
					ok, err := t.Get(ctx, k, &got)
					if err != nil {
						return fmt.Errorf("Get(key of %d characters): %w", len(k), err)
					}
					if !ok || !bytes.Equal(got, want) {
						return fmt.Errorf("Get(key of %d characters): found=%v, %d bytes, want %d", len(k), ok, len(got), len(want))
					}
				}
				n := 0
				prev := ""
				if err := t.Iter(ctx, func(k, v interface{}) error {
					n++
					if n > 1 && !(prev < k.(string)) {
						return fmt.Errorf("Iter: keys not ascending")
					}
					prev = k.(string)
					return nil
				}); err != nil {
					return err
				}
				if n != 3 {
					return fmt.Errorf("Iter yielded %d entries, want 3", n)
				}
				return nil
			})
			atomic.AddInt64(&evals, 1)
			if res.Err != nil || res.Panic != nil {
				acc.add(cfg, check, []explore.Finding{{Sig: check + "|body-length|cold-read|key|" + format + "|" + resClass(res), What: "a tree holding a key whose encoded body has one particular length does not read back from the store", Detail: fmt.Sprintf("key body of %d bytes, []byte value of %d bytes: %v", L+3, L, res)}}, []string{cfg.Name, fmt.Sprintf("string keys \"A\", \"b\"+%d characters, \"c\" with []byte values; MakeRoot; cold LoadMast; Get; Iter", L)})
			}
		})
	}
	run.Evals += evals
	run.Parts = append(run.Parts, map[string]interface{}{"part": "element bodies of every length a one- or two-byte length prefix can announce (0..16600) and the edges of longer prefixes, values and keys, read cold after a persist", "trees": trees, "cold_reads_judged": evals})
}
