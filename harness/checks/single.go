package checks

import (
	"bytes"
	"encoding/json"
	"fmt"
	"strings"
	"sync"

	"github.com/jrhy/mast"
	"verifharness/env"
	"verifharness/explore"
	"verifharness/ref"
	"verifharness/report"
	"verifharness/world"
)

func isPersistOp(k world.OpKind) bool {
	return k == world.OpPersist || k == world.OpReload || k == world.OpReloadJSON || k == world.OpKeep || k == world.OpPersistFail
}

func codecFor(cfg *world.Config) *ref.Codec { return &ref.Codec{Format: cfg.Format} }

func storeGet(st *env.Store) func(string) ([]byte, bool) {
	return func(n string) ([]byte, bool) { return st.Has(n) }
}

func linkOf(r *mast.Root) string {
	if r == nil || r.Link == nil {
		return ""
	}
	return *r.Link
}

// ---------------- C04: canonical form ----------------

type c04Mon struct {
	explore.NopMonitor
}

func (m *c04Mon) After(w *world.World, op world.Op, res world.Res, pre interface{}) []explore.Finding {
	if !isPersistOp(op.Kind) || res.Root == nil || res.Err != nil || res.Panic != nil {
		return nil
	}
	cfg := w.Cfg
	c := w.ReadContents(w.Trees[op.A])
	if c.Bad != "" {
		return nil // judged by C01
	}
	es := entriesOf(cfg, c)
	H := ref.CanonHeight(cfg.KS, es, cfg.BF)
	canon := ref.BuildCanon(cfg.KS, es, cfg.BF, H)
	want, err := codecFor(cfg).Encode(canon, nil)
	if err != nil {
		return []explore.Finding{{Sig: "C04|harness|encode", What: "reference encoder failed: " + err.Error()}}
	}
	got := linkOf(res.Root)
	var diffs []string
	if int(res.Root.Height) > H {
		diffs = append(diffs, "height-above-canonical")
	} else if int(res.Root.Height) < H {
		diffs = append(diffs, "height-below-canonical")
	}
	if res.Root.Size != uint64(len(es)) {
		diffs = append(diffs, "size")
	}
	if got != want {
		if want == "" {
			diffs = append(diffs, "empty-tree-has-root-node")
		} else if got == "" {
			diffs = append(diffs, "nonempty-tree-has-nil-link")
		} else if len(diffs) == 0 {
			diffs = append(diffs, "link-differs-at-canonical-height")
		}
	}
	if len(diffs) == 0 {
		return nil
	}
	return []explore.Finding{{Sig: "C04|" + strings.Join(diffs, "+"),
		What:   "persisted root is not the canonical root of the tree's entries (" + strings.Join(diffs, ", ") + ")",
		Detail: fmt.Sprintf("contents %v: got Link=%q Height=%d Size=%d, canonical Link=%q Height=%d Size=%d", c, got, res.Root.Height, res.Root.Size, want, H, len(es))}}
}

// ---------------- C09: shape invariants ----------------

type c09Mon struct {
	explore.NopMonitor
}

func (m *c09Mon) After(w *world.World, op world.Op, res world.Res, pre interface{}) []explore.Finding {
	if !isPersistOp(op.Kind) || res.Root == nil || res.Panic != nil {
		return nil
	}
	cfg := w.Cfg
	sn, err := codecFor(cfg).Walk(cfg.KS, storeGet(w.Store), linkOf(res.Root), nil)
	if err != nil {
		return []explore.Finding{{Sig: "C09|unwalkable|" + report.Norm(err.Error()), What: "persisted version cannot be decoded from the store", Detail: err.Error()}}
	}
	bad := ref.CheckShape(cfg.KS, sn, cfg.BF, int(res.Root.Height), res.Root.Size)
	if len(bad) == 0 {
		return nil
	}
	seen := map[string]bool{}
	var out []explore.Finding
	for _, b := range bad {
		clause := b[:strings.Index(b, ":")]
		if seen[clause] {
			continue
		}
		seen[clause] = true
		out = append(out, explore.Finding{Sig: "C09|" + clause, What: "persisted tree breaks shape invariant '" + clause + "'", Detail: strings.Join(bad, "; ")})
	}
	return out
}

// ---------------- C08: content addressing ----------------

type c08Mon struct {
	explore.NopMonitor
	mu        sync.Mutex
	nameBytes map[string]string
	rootCont  map[string]string
	stores    int64
	distinct  int64
}

func newC08() *c08Mon {
	return &c08Mon{nameBytes: map[string]string{}, rootCont: map[string]string{}}
}

func (m *c08Mon) After(w *world.World, op world.Op, res world.Res, pre interface{}) []explore.Finding {
	var out []explore.Finding
	cfg := w.Cfg
	codec := codecFor(cfg)
	for _, c := range append(append([]env.Call{}, res.Calls...), res.AuxCalls...) {
		if c.Kind != "store" {
			continue
		}
		if n := ref.Name(c.Bytes); n != c.Name {
			out = append(out, explore.Finding{Sig: "C08|name-is-not-hash-of-bytes", What: "a node was written under a name that is not the BLAKE2b-256/base64url name of its bytes", Detail: fmt.Sprintf("name %s, bytes hash to %s", c.Name, n)})
		}
		m.mu.Lock()
		m.stores++
		old, ok := m.nameBytes[c.Name]
		if !ok {
			m.nameBytes[c.Name] = string(c.Bytes)
			m.distinct++
		}
		m.mu.Unlock()
		if ok && old != string(c.Bytes) {
			out = append(out, explore.Finding{Sig: "C08|same-name-different-bytes", What: "the same name was written with different bytes", Detail: c.Name})
		}
		if cfg.MarshalNL || cfg.Tagged {
			continue // a user marshaler with its own framing / element form: only name == hash(bytes) and single-valuedness are judged
		}
		rn, err := codec.Decode(c.Bytes)
		if err != nil {
			out = append(out, explore.Finding{Sig: "C08|undecodable", What: "written bytes are not a well-formed node of the format", Detail: fmt.Sprintf("%s: %q", c.Name, c.Bytes)})
			continue
		}
		re, _ := codec.EncodeRaw(rn.Keys, rn.Vals, rn.Links)
		if !bytes.Equal(re, c.Bytes) {
			out = append(out, explore.Finding{Sig: "C08|non-canonical-encoding", What: "written bytes are not the canonical encoding of their own entries and child names", Detail: fmt.Sprintf("%s: wrote %q, canonical %q", c.Name, c.Bytes, re)})
		}
		for _, rk := range rn.Keys {
			k, err := cfg.KS.Dec(rk)
			if err != nil {
				out = append(out, explore.Finding{Sig: "C08|key-undecodable", What: "a written key does not decode", Detail: string(rk)})
				continue
			}
			rb, _ := json.Marshal(k)
			if !bytes.Equal(rb, rk) {
				out = append(out, explore.Finding{Sig: "C08|key-encoding-not-deterministic", What: "a key's bytes are not the deterministic encoding of the key", Detail: fmt.Sprintf("%q vs %q", rk, rb)})
			}
		}
	}
	if cfg.RetainStore {
		// a store that keeps the slices it was given: whatever was written must still be what its name says
		for _, n := range w.Store.Names() {
			if b, _ := w.Store.Has(n); ref.Name(b) != n {
				out = append(out, explore.Finding{Sig: "C08|stored-bytes-changed-after-the-write", What: "bytes handed to Store were modified afterwards: a store that keeps the slice no longer holds the bytes its name is the hash of", Detail: n})
				break
			}
		}
	}
	if isPersistOp(op.Kind) && res.Root != nil && res.Err == nil && res.Panic == nil {
		c := w.ReadContents(w.Trees[op.A])
		if c.Bad == "" {
			key := fmt.Sprintf("%s/h", linkOf(res.Root))
			cs := c.String()
			m.mu.Lock()
			old, ok := m.rootCont[key]
			if !ok {
				m.rootCont[key] = cs
			}
			m.mu.Unlock()
			if ok && old != cs {
				out = append(out, explore.Finding{Sig: "C08|same-root-name-different-contents", What: "two persisted versions with the same root name have different contents", Detail: fmt.Sprintf("root %q: %s vs %s", linkOf(res.Root), old, cs)})
			}
		}
	}
	return out
}

// OnState: a live tree that has not been modified since it was persisted as (or loaded from) root R is a
// persisted version with root name R: it must hold what R named when it was written, and what the
// bytes stored under R decode to.
func (m *c08Mon) OnState(w *world.World, hist []world.Op) []explore.Finding {
	if w.Store == nil {
		return nil
	}
	cfg := w.Cfg
	var out []explore.Finding
	for slot, t := range w.Trees {
		if t == nil || !w.Base[slot].Valid || len(w.Mod[slot]) > 0 {
			continue
		}
		b := w.Base[slot]
		got := w.ReadContents(t)
		if got.Bad != "" || b.Contents.Bad != "" {
			continue
		}
		if !got.Equal(b.Contents) {
			out = append(out, explore.Finding{Sig: "C08|root-name-no-longer-names-its-contents", What: "a tree not modified since it was persisted as / loaded from a root holds other contents than that root name named then", Detail: fmt.Sprintf("slot %d root %q: then %v, now %v", slot, b.Link, b.Contents, got)})
			continue
		}
		sn, err := codecFor(cfg).Walk(cfg.KS, storeGet(w.Store), b.Link, nil)
		if err != nil {
			continue // a missing or undecodable node: judged by C03 / C05
		}
		n := 0
		okKeys := true
		ref.Flatten(sn, func(k interface{}, rawV []byte) {
			n++
			found := false
			for i := range got.M {
				if cfg.KS.Cmp(cfg.Key(i), k) == 0 {
					found = true
				}
			}
			if !found {
				okKeys = false
			}
		})
		if n != len(got.M) || !okKeys {
			out = append(out, explore.Finding{Sig: "C08|stored-bytes-of-root-name-hold-other-contents", What: "the bytes stored under a root name decode to other keys than the unmodified tree with that root name holds", Detail: fmt.Sprintf("slot %d root %q: tree %v, stored entries %d", slot, b.Link, got, n)})
		}
	}
	return out
}

// ---------------- C05: persist then load is the identity ----------------

type c05Mon struct {
	explore.NopMonitor
}

type c05Pre struct {
	c      world.Contents
	height uint8
	bf     uint
}

func (m *c05Mon) Before(w *world.World, op world.Op) interface{} {
	if op.Kind != world.OpReload && op.Kind != world.OpReloadJSON {
		return nil
	}
	t := w.Trees[op.A]
	return c05Pre{c: w.ReadContents(t), height: t.Height(), bf: t.BranchFactor()}
}

func (m *c05Mon) After(w *world.World, op world.Op, res world.Res, pre interface{}) []explore.Finding {
	if op.Kind == world.OpLoad && res.Err == nil && res.Panic == nil {
		// loading a root kept earlier: still the identity on what was persisted then
		if got := w.ReadContents(w.Trees[op.A]); !got.Equal(w.RootC[op.B]) || w.Trees[op.A].Size() != w.Roots[op.B].Size || w.Trees[op.A].Height() != w.Roots[op.B].Height {
			return []explore.Finding{{Sig: "C05|load-of-kept-root-differs|cache=" + w.Cfg.Cache + "|" + report.Norm(got.Bad), What: "loading a root that was returned by MakeRoot earlier yields a tree that differs from what was persisted",
				Detail: fmt.Sprintf("persisted %v, loaded %v", w.RootC[op.B], got), Block: true}}
		}
		return nil
	}
	if op.Kind != world.OpReload && op.Kind != world.OpReloadJSON {
		return nil
	}
	p := pre.(c05Pre)
	if p.c.Bad != "" {
		return nil // source unreadable: judged by C01
	}
	if res.Panic != nil || res.Err != nil {
		return []explore.Finding{{Sig: "C05|reload-failed|" + resClass(res), What: "loading the root returned by MakeRoot failed", Detail: res.String(), Block: true}}
	}
	t := w.Trees[op.A]
	got := w.ReadContents(t)
	var diffs []string
	if !got.Equal(p.c) {
		diffs = append(diffs, "entries")
	}
	if t.Height() != p.height {
		diffs = append(diffs, "height")
	}
	if t.BranchFactor() != p.bf {
		diffs = append(diffs, "branchfactor")
	}
	if res.Root.NodeFormat != w.Cfg.Format {
		diffs = append(diffs, "nodeformat")
	}
	if res.Root.Size != p.c.Size || res.Root.Height != p.height || res.Root.BranchFactor != p.bf {
		diffs = append(diffs, "root-record")
	}
	if len(diffs) == 0 && w.Cfg.Format == ref.FormatMarshaler && !w.Cfg.Tagged && !w.Cfg.RegisteredTypes {
		// a root written down by an older release carries no NodeFormat: it is a v1marshaler tree and loads as such
		legacy := *res.Root
		legacy.NodeFormat = ""
		var lt *mast.Mast
		r := guardRes(func() (err error) { lt, err = legacy.LoadMast(ctx, w.RemoteConfig(w.Store, false)); return })
		if r.Err != nil || r.Panic != nil {
			return []explore.Finding{{Sig: "C05|legacy-root-without-NodeFormat|reload-failed|" + resClass(r), What: "loading the same root with an empty NodeFormat (as older releases wrote it) failed", Detail: r.String(), Block: true}}
		}
		if lg := w.ReadContents(lt); !lg.Equal(p.c) {
			return []explore.Finding{{Sig: "C05|legacy-root-without-NodeFormat|differs|" + report.Norm(lg.Bad), What: "the same root with an empty NodeFormat loads to different contents", Detail: fmt.Sprintf("persisted %v loaded %v", p.c, lg), Block: true}}
		}
	}
	if len(diffs) == 0 {
		return nil
	}
	return []explore.Finding{{Sig: "C05|differs:" + strings.Join(diffs, "+") + "|" + report.Norm(got.Bad), What: "the reloaded tree differs from the persisted one in " + strings.Join(diffs, ", "),
		Detail: fmt.Sprintf("before %v h=%d bf=%d; after %v h=%d bf=%d root=%+v", p.c, p.height, p.bf, got, t.Height(), t.BranchFactor(), *res.Root), Block: true}}
}

// ---------------- C13: incremental persistence ----------------

type c13Mon struct {
	explore.NopMonitor
}

type c13Pre struct {
	base world.Base
	mod  []int
	hchg bool
}

func (m *c13Mon) ExtraKey(w *world.World) string {
	var sb strings.Builder
	for i := range w.Trees {
		if w.Trees[i] == nil {
			continue
		}
		fmt.Fprintf(&sb, "B%d:%s/%d/%d;M%v;%v", i, w.Base[i].Link, w.Base[i].Root.Height, w.Base[i].Root.Size, sortedBoolKeys(w.Mod[i]), w.HChg[i])
	}
	return sb.String()
}

func sortedBoolKeys(m map[int]bool) []int {
	t := map[int]int{}
	for k := range m {
		t[k] = 0
	}
	return sortedKeys(t)
}

func (m *c13Mon) Before(w *world.World, op world.Op) interface{} {
	if !isPersistOp(op.Kind) {
		return nil
	}
	return c13Pre{base: w.Base[op.A], mod: sortedBoolKeys(w.Mod[op.A]), hchg: w.HChg[op.A]}
}

func (m *c13Mon) After(w *world.World, op world.Op, res world.Res, pre interface{}) []explore.Finding {
	var out []explore.Finding
	cfg := w.Cfg
	if isPersistOp(op.Kind) && res.Root != nil && res.Panic == nil {
		p := pre.(c13Pre)
		codec := codecFor(cfg)
		var stored []string
		for _, c := range res.Calls {
			if c.Kind == "store" {
				stored = append(stored, c.Name)
			}
		}
		newReach := map[string]bool{}
		_, err := codec.Walk(cfg.KS, storeGet(w.Store), linkOf(res.Root), newReach)
		if err == nil {
			for _, n := range stored {
				if !newReach[n] {
					out = append(out, explore.Finding{Sig: "C13|wrote-unreachable-node", What: "MakeRoot wrote a node that is not reachable from the returned root", Detail: n})
					break
				}
			}
		}
		if p.base.Valid {
			if len(p.mod) == 0 {
				if len(stored) > 0 {
					out = append(out, explore.Finding{Sig: "C13|unmodified-but-wrote", What: "MakeRoot wrote nodes although nothing was modified since the version the tree was loaded from / last persisted as", Detail: fmt.Sprint(stored)})
				}
				if linkOf(res.Root) != p.base.Link || res.Root.Height != p.base.Root.Height || res.Root.Size != p.base.Root.Size {
					out = append(out, explore.Finding{Sig: "C13|unmodified-but-different-root", What: "MakeRoot returned a different root although nothing was modified", Detail: fmt.Sprintf("base %q/%d/%d now %q/%d/%d", p.base.Link, p.base.Root.Height, p.base.Root.Size, linkOf(res.Root), res.Root.Height, res.Root.Size)})
				}
			}
			if res.Root.Height == p.base.Root.Height && !p.hchg {
				// "as long as the height has not changed since that version"
				h := int(res.Root.Height)
				if len(stored) > (2*h+2)*len(p.mod) {
					out = append(out, explore.Finding{Sig: "C13|too-many-writes", What: "MakeRoot wrote more than 2*height+2 nodes per modified key", Detail: fmt.Sprintf("%d writes, height %d, %d modified keys", len(stored), h, len(p.mod))})
				}
				vsn, err := codec.Walk(cfg.KS, storeGet(w.Store), p.base.Link, nil)
				if err == nil {
					ranges := ref.Ranges(vsn, h)
					for _, n := range stored {
						rg, ok := ranges[n]
						if !ok {
							continue
						}
						hit := false
						for _, k := range p.mod {
							key := cfg.Key(k)
							// closed interval: a modified separator key restructures both subtrees next to it
							if (rg.Lo == nil || cfg.KS.Cmp(rg.Lo, key) <= 0) && (rg.Hi == nil || cfg.KS.Cmp(key, rg.Hi) <= 0) {
								hit = true
							}
						}
						if !hit {
							out = append(out, explore.Finding{Sig: "C13|rewrote-untouched-node", What: "MakeRoot rewrote a node of the previous version although no modified key lies in its key range", Detail: fmt.Sprintf("node %s range (%v,%v) modified %v", n, rg.Lo, rg.Hi, p.mod)})
							break
						}
					}
				}
			}
		}
	}
	// clean means unchanged (every state)
	for i, t := range w.Trees {
		if t == nil || !w.Base[i].Valid {
			continue
		}
		if !t.IsDirty() {
			c := w.ReadContents(t)
			if c.Bad == "" && !c.Equal(w.Base[i].Contents) {
				out = append(out, explore.Finding{Sig: "C13|clean-but-changed|" + treeClassC(c), What: "IsDirty()==false although the contents differ from the version the tree was loaded from / last persisted as",
					Detail: fmt.Sprintf("now %v, version %v", c, w.Base[i].Contents)})
			}
		}
	}
	return out
}

func treeClassC(c world.Contents) string {
	if len(c.M) == 0 {
		return "now-empty"
	}
	return "nonempty"
}

// ---------------- C16: point operations read only the search path ----------------

type c16Mon struct {
	explore.NopMonitor
}

type c16Pre struct {
	height uint8
}

func (m *c16Mon) Before(w *world.World, op world.Op) interface{} {
	if t := w.Trees[op.A]; t != nil {
		return c16Pre{t.Height()}
	}
	return c16Pre{}
}

func (m *c16Mon) OnState(w *world.World, hist []world.Op) []explore.Finding {
	var out []explore.Finding
	cfg := w.Cfg
	if w.Store == nil {
		return nil
	}
	for slot, t := range w.Trees {
		if t == nil {
			continue
		}
		h := int(t.Height())
		for i := 0; i < cfg.NAll(); i++ {
			w.Store.ResetLog()
			r := guardRes(func() error { _, err := t.Get(ctx, cfg.Key(i), nil); return err })
			if r.Err != nil || r.Panic != nil {
				continue
			}
			if n := len(w.Store.Calls("load")); n > h+1 {
				out = append(out, explore.Finding{Sig: "C16|Get|too-many-loads", What: "Get read more nodes than height+1", Detail: fmt.Sprintf("slot %d key %v: %d loads, height %d", slot, cfg.Key(i), n, h)})
				break
			}
		}
		// navigation reads the search path only: a cursor placed by Ceil, and a SeekIter stopped at its first entry
		for i := 0; i < cfg.NAll(); i++ {
			w.Store.ResetLog()
			r := guardRes(func() error {
				c, err := t.Cursor(ctx)
				if err != nil {
					return err
				}
				return c.Ceil(ctx, cfg.Key(i))
			})
			if r.Err == nil && r.Panic == nil {
				if n := len(w.Store.Calls("load")); n > h+1 {
					out = append(out, explore.Finding{Sig: "C16|Cursor.Ceil|too-many-loads", What: "placing a cursor read more nodes than height+1", Detail: fmt.Sprintf("key %v: %d loads, height %d", cfg.Key(i), n, h)})
					break
				}
			}
			w.Store.ResetLog()
			r = guardRes(func() error {
				return t.SeekIter(ctx, cfg.Key(i), func(k, v interface{}) error { return mast.ErrIterDone })
			})
			if r.Err == nil && r.Panic == nil {
				if n := len(w.Store.Calls("load")); n > 2*(h+1) {
					out = append(out, explore.Finding{Sig: "C16|SeekIter-first-entry|too-many-loads", What: "SeekIter stopped at its first entry read more than 2*(height+1) nodes", Detail: fmt.Sprintf("key %v: %d loads, height %d", cfg.Key(i), n, h)})
					break
				}
			}
		}
		// Min / Max and every single step from them read at most one path; so does an iteration stopped at its first entry
		for _, dir := range []string{"Min+Forward", "Max+Backward"} {
			var c *mast.Cursor
			w.Store.ResetLog()
			r := guardRes(func() (err error) {
				if c, err = t.Cursor(ctx); err != nil {
					return err
				}
				if dir == "Min+Forward" {
					return c.Min(ctx)
				}
				return c.Max(ctx)
			})
			if r.Err != nil || r.Panic != nil {
				continue
			}
			if n := len(w.Store.Calls("load")); n > h+1 {
				out = append(out, explore.Finding{Sig: "C16|Cursor." + dir[:3] + "|too-many-loads", What: "placing a cursor at an end read more nodes than height+1", Detail: fmt.Sprintf("%d loads, height %d", n, h)})
				continue
			}
			for s := 0; s <= cfg.NAll(); s++ {
				if _, _, ok := c.Get(); !ok {
					break
				}
				w.Store.ResetLog()
				r := guardRes(func() error {
					if dir == "Min+Forward" {
						return c.Forward(ctx)
					}
					return c.Backward(ctx)
				})
				if r.Err != nil || r.Panic != nil {
					break
				}
				if n := len(w.Store.Calls("load")); n > h+1 {
					out = append(out, explore.Finding{Sig: "C16|Cursor." + dir[4:] + "|too-many-loads", What: "one cursor step read more nodes than height+1", Detail: fmt.Sprintf("step %d of %s: %d loads, height %d", s+1, dir, n, h)})
					break
				}
			}
		}
		w.Store.ResetLog()
		if r := guardRes(func() error { return t.Iter(ctx, func(k, v interface{}) error { return mast.ErrIterDone }) }); r.Err == nil && r.Panic == nil {
			if n := len(w.Store.Calls("load")); n > h+1 {
				out = append(out, explore.Finding{Sig: "C16|Iter-first-entry|too-many-loads", What: "an iteration stopped at its first entry read more nodes than height+1", Detail: fmt.Sprintf("%d loads, height %d", n, h)})
			}
		}
		w.Store.ResetLog()
		r := guardRes(func() error { _, err := t.Clone(ctx); return err })
		if r.Err == nil && r.Panic == nil {
			if n := len(w.Store.Calls("load")); n > 1 {
				out = append(out, explore.Finding{Sig: "C16|Clone|too-many-loads", What: "Clone read more than the top node", Detail: fmt.Sprintf("%d loads", n)})
			}
		}
	}
	return out
}

func (m *c16Mon) After(w *world.World, op world.Op, res world.Res, pre interface{}) []explore.Finding {
	if res.Panic != nil || (res.Err != nil && op.Kind != world.OpDel) {
		return nil
	}
	p := pre.(c16Pre)
	h := int(p.height)
	loads := world.Count(res.Calls, "load")
	chk := func(api string, n, bound int, extra string) []explore.Finding {
		if n <= bound {
			return nil
		}
		return []explore.Finding{{Sig: "C16|" + api + "|too-many-loads", What: api + " read more nodes than the search path allows", Detail: fmt.Sprintf("%d loads > bound %d (height %d) %s", n, bound, h, extra)}}
	}
	switch op.Kind {
	case world.OpGet:
		return chk("Get", loads, h+1, "")
	case world.OpIns, world.OpDel:
		if w.Trees[op.A].Height() != p.height {
			return nil
		}
		name := "Insert"
		if op.Kind == world.OpDel {
			name = "Delete"
		}
		return chk(name, loads, 2*(h+1), "")
	case world.OpPersist, world.OpKeep:
		// persisting reads nothing proportional to the tree: at most the paths of the keys modified since the last version
		return chk("MakeRoot", loads, 2*(h+1)*len(w.Cfg.Keys), "")
	case world.OpReload, world.OpReloadJSON:
		if f := chk("MakeRoot", loads, 2*(h+1)*len(w.Cfg.Keys), ""); f != nil {
			return f
		}
		if w.Cfg.Format == ref.FormatMarshaler && res.Root != nil && !w.Cfg.Tagged && !w.Cfg.RegisteredTypes {
			// opening the version through a root without NodeFormat (older releases) reads the top node once, too
			legacy := *res.Root
			legacy.NodeFormat = ""
			w.Store.ResetLog()
			if r := guardRes(func() error { _, err := legacy.LoadMast(ctx, w.RemoteConfig(w.Store, false)); return err }); r.Err == nil && r.Panic == nil {
				if f := chk("LoadMast(root without NodeFormat)", len(w.Store.Calls("load")), 1, ""); f != nil {
					return f
				}
			}
		}
		return chk("LoadMast", world.Count(res.AuxCalls, "load"), 1, "")
	case world.OpLoad, world.OpLoadNoCache:
		return chk("LoadMast", loads, 1, "")
	case world.OpClone:
		return chk("Clone", loads, 1, "")
	}
	return nil
}
