package checks

import (
	"context"
	"errors"
	"fmt"
	"sort"
	"sync/atomic"
	"time"

	"github.com/jrhy/mast"
	masts3 "github.com/jrhy/mast/persist/s3"
	"verifharness/env"
	"verifharness/explore"
	"verifharness/ref"
	"verifharness/report"
	"verifharness/world"
)

// C03, part A (engine F): fault sequences with in-order completion. For every
// pre-state of the closure that has something to write, every non-empty subset
// (or, above 4 writes, every subset of size <= 2) of the Store calls fails, keyed
// by node name so that the choice does not depend on the order of the calls;
// then up to two retries, the first again with every single failure.

type c03Stats struct{ evals, failing, retries int64 }

// hangGuard is a safety net, not an oracle: MakeRoot on these trees takes milliseconds;
// if it has not returned after this long its goroutines are deadlocked (engine S detects the same
// thing exactly, as "no enabled thread"). The stuck goroutines are abandoned.
const hangGuard = 60 * time.Second

var errHung = errors.New("MakeRoot did not return: its goroutines are deadlocked")

// makeRootGuarded runs MakeRoot in a goroutine of its own.
func makeRootGuarded(t *mast.Mast) (root *mast.Root, res world.Res) {
	return makeRootGuardedCtx(ctx, t)
}

func makeRootGuardedCtx(ctx context.Context, t *mast.Mast) (root *mast.Root, res world.Res) {
	type out struct {
		root *mast.Root
		res  world.Res
	}
	ch := make(chan out, 1)
	go func() {
		var o out
		o.res = guardRes(func() (err error) { o.root, err = t.MakeRoot(ctx); return })
		ch <- o
	}()
	select {
	case o := <-ch:
		return o.root, o.res
	case <-time.After(hangGuard):
		return nil, world.Res{Err: errHung}
	}
}

// reachCheck verifies that every node reachable from root is in the store under its own name.
func reachCheck(cfg *world.Config, st *env.Store, root *mast.Root) error {
	_, err := codecFor(cfg).Walk(cfg.KS, storeGet(st), linkOf(root), nil)
	return err
}

func c03State(cfg *world.Config, hist []world.Op, acc *pairAcc, st *c03Stats, maxSubset int) {
	build := func() (*world.World, *mast.Mast) {
		w, err := explore.Replay(cfg, hist, true)
		if err != nil {
			return nil, nil
		}
		return w, w.Trees[0]
	}
	// 0 deviations: which nodes does MakeRoot write?
	w, t := build()
	if w == nil {
		return
	}
	w.Store.ResetLog()
	root0, r0 := makeRootGuarded(t)
	atomic.AddInt64(&st.evals, 1)
	desc0 := cfg.DescribeHist(hist)
	if r0.Err != nil || r0.Panic != nil {
		acc.add(cfg, "C03", []explore.Finding{{Sig: "C03|MakeRoot-failed-on-healthy-store|" + resClass(r0), What: "MakeRoot failed although no write failed", Detail: r0.String()}}, desc0)
		return
	}
	if err := reachCheck(cfg, w.Store, root0); err != nil {
		acc.add(cfg, "C03", []explore.Finding{{Sig: "C03|success-but-node-missing|no-fault", What: "MakeRoot reported success but a node reachable from the returned root is not in the store", Detail: err.Error()}}, desc0)
		return
	}
	var names []string
	for _, c := range w.Store.Calls("store") {
		names = append(names, c.Name)
	}
	sort.Strings(names)
	d := len(names)
	if d == 0 {
		return
	}
	// the caller's context is done before the call, or becomes done at the k-th Store call of the flush (the
	// stores of the harness, like the in-memory and file stores of the library, do not look at it): whatever
	// MakeRoot answers, a nil answer means a complete root
	for k := -1; k < d; k++ {
		w, t := build()
		if w == nil {
			return
		}
		pre := w.ReadContents(t)
		cctx, cancel := context.WithCancel(ctx)
		if k < 0 {
			cancel()
		} else {
			var n int32
			kk := int32(k)
			w.Store.Gate = func(kind, name string) error {
				if kind == "store" && atomic.AddInt32(&n, 1) == kk+1 {
					cancel()
				}
				return nil
			}
		}
		rootC, rc := makeRootGuardedCtx(cctx, t)
		cancel()
		w.Store.Gate = nil
		atomic.AddInt64(&st.evals, 1)
		desc := append(append([]string{}, desc0...), fmt.Sprintf("MakeRoot with a context that is cancelled at Store call #%d (-1: before the call)", k))
		if rc.Err == errHung {
			acc.add(cfg, "C03", []explore.Finding{{Sig: "C03|MakeRoot-never-returns|context-cancelled", What: "MakeRoot did not return after its context was cancelled", Detail: fmt.Sprint(hangGuard)}}, desc)
			return
		}
		if rc.Panic != nil {
			acc.add(cfg, "C03", []explore.Finding{{Sig: "C03|panic|context-cancelled|" + resClass(rc), What: "MakeRoot panicked when its context was cancelled", Detail: rc.String()}}, desc)
			continue
		}
		if rc.Err == nil {
			if err := reachCheck(cfg, w.Store, rootC); err != nil {
				acc.add(cfg, "C03", []explore.Finding{{Sig: "C03|success-but-node-missing|context-cancelled", What: "MakeRoot reported success under a cancelled context although a node reachable from the returned root is not in the store", Detail: err.Error()}}, desc)
				continue
			}
		} else if post := w.ReadContents(t); !post.Equal(pre) {
			acc.add(cfg, "C03", []explore.Finding{{Sig: "C03|tree-unusable-after-failed-MakeRoot|context-cancelled|" + report.Norm(post.Bad), What: "after MakeRoot failed under a cancelled context the tree no longer answers Get/Size as before", Detail: fmt.Sprintf("before %v after %v", pre, post)}}, desc)
			continue
		}
		// and a later call with a live context gives a complete root
		root2, r2 := makeRootGuarded(t)
		if r2.Err == nil && r2.Panic == nil {
			if err := reachCheck(cfg, w.Store, root2); err != nil {
				acc.add(cfg, "C03", []explore.Finding{{Sig: "C03|later-success-with-nodes-missing|context-cancelled", What: "after a MakeRoot under a cancelled context, a later MakeRoot reported success although a node reachable from the returned root is not in the store", Detail: err.Error()}}, append(desc, "then MakeRoot with a live context"))
			}
		} else if r2.Err != errHung {
			acc.add(cfg, "C03", []explore.Finding{{Sig: "C03|later-MakeRoot-fails|context-cancelled|" + resClass(r2), What: "MakeRoot with a live context fails after an earlier call under a cancelled context", Detail: r2.String()}}, desc)
		}
	}
	// enumerate failing subsets
	var subsets [][]int
	if d <= 4 {
		for mask := 1; mask < 1<<d; mask++ {
			var s []int
			for i := 0; i < d; i++ {
				if mask&(1<<i) != 0 {
					s = append(s, i)
				}
			}
			subsets = append(subsets, s)
		}
	} else {
		for i := 0; i < d; i++ {
			subsets = append(subsets, []int{i})
			if maxSubset >= 2 {
				for j := i + 1; j < d; j++ {
					subsets = append(subsets, []int{i, j})
				}
			}
		}
	}
	for _, sub := range subsets {
		for _, retryFail := range append([]int{-1}, sub...) {
			w, t := build()
			if w == nil {
				return
			}
			pre := w.ReadContents(t)
			failNames := map[string]bool{}
			for _, i := range sub {
				failNames[names[i]] = true
			}
			w.Store.Gate = func(kind, name string) error {
				if kind == "store" && failNames[name] {
					return env.ErrInjected
				}
				return nil
			}
			root, r := makeRootGuarded(t)
			atomic.AddInt64(&st.evals, 1)
			atomic.AddInt64(&st.failing, 1)
			desc := append(append([]string{}, desc0...), fmt.Sprintf("MakeRoot with the Store of %d of %d nodes failing", len(sub), d))
			cls := fmt.Sprintf("writes=%s", bucket(d))
			if r.Err == errHung {
				acc.add(cfg, "C03", []explore.Finding{{Sig: "C03|MakeRoot-never-returns-after-a-failed-write|" + cls, What: "after a Store call failed MakeRoot did not return at all (its worker pool is deadlocked)", Detail: fmt.Sprintf("no return within %v; %d nodes to write", hangGuard, d)}}, desc)
				return // the tree's goroutines are stuck; later results of this state would only repeat it
			}
			if r.Panic != nil {
				acc.add(cfg, "C03", []explore.Finding{{Sig: "C03|panic-on-store-failure|" + resClass(r), What: "MakeRoot panicked when a write failed", Detail: r.String()}}, desc)
				continue
			}
			if r.Err == nil {
				// a write failed (it was issued: the same names are written whatever fails, unless skipped after the first error)
				failedIssued := false
				for _, c := range w.Store.Calls("store") {
					if c.Err {
						failedIssued = true
					}
				}
				if failedIssued {
					acc.add(cfg, "C03", []explore.Finding{{Sig: "C03|write-failed-but-success-reported|" + cls, What: "a Store call failed but MakeRoot reported success", Detail: fmt.Sprintf("root %+v", root)}}, desc)
				}
				continue
			}
			// the tree must stay fully usable
			w.Store.Gate = nil
			post := w.ReadContents(t)
			if !post.Equal(pre) {
				acc.add(cfg, "C03", []explore.Finding{{Sig: "C03|tree-unusable-after-failed-MakeRoot|" + report.Norm(post.Bad), What: "after MakeRoot failed because a write failed, the tree no longer answers Get/Size as before", Detail: fmt.Sprintf("before %v after %v", pre, post)}}, desc)
			}
			// retry (optionally with one of the previously failing nodes failing again)
			if retryFail >= 0 {
				one := names[retryFail]
				w.Store.Gate = func(kind, name string) error {
					if kind == "store" && name == one {
						return env.ErrInjected
					}
					return nil
				}
			}
			root2, r2 := makeRootGuarded(t)
			atomic.AddInt64(&st.retries, 1)
			if r2.Err == errHung {
				acc.add(cfg, "C03", []explore.Finding{{Sig: "C03|retry-never-returns|" + cls, What: "a retried MakeRoot did not return at all", Detail: fmt.Sprintf("no return within %v", hangGuard)}}, desc)
				return
			}
			w.Store.Gate = nil
			if r2.Panic != nil {
				acc.add(cfg, "C03", []explore.Finding{{Sig: "C03|retry-panicked|" + resClass(r2), What: "retrying MakeRoot after a failed write panicked", Detail: r2.String()}}, desc)
				continue
			}
			if r2.Err == nil {
				if err := reachCheck(cfg, w.Store, root2); err != nil {
					acc.add(cfg, "C03", []explore.Finding{{Sig: "C03|retry-succeeded-with-nodes-missing|" + cls, What: "after a failed write, a later MakeRoot reported success although a node reachable from the returned root is not in the store", Detail: err.Error()}}, append(desc, "then MakeRoot again"))
					continue
				}
				if got := w.ReadContents(t); !got.Equal(pre) {
					acc.add(cfg, "C03", []explore.Finding{{Sig: "C03|contents-changed-across-retry", What: "the tree's contents changed across a failed and a retried MakeRoot", Detail: fmt.Sprintf("before %v after %v", pre, got)}}, desc)
				}
				if linkOf(root2) != linkOf(root0) {
					acc.add(cfg, "C03", []explore.Finding{{Sig: "C03|retry-root-differs", What: "the root obtained after a failed and a retried MakeRoot differs from the fault-free one", Detail: fmt.Sprintf("%q vs %q", linkOf(root2), linkOf(root0))}}, desc)
				}
			} else if retryFail < 0 {
				// fault cleared but the retry still fails
				acc.add(cfg, "C03", []explore.Finding{{Sig: "C03|retry-fails-after-fault-cleared|" + report.Norm(r2.Err.Error()), What: "MakeRoot keeps failing after the write fault has cleared", Detail: r2.Err.Error()}}, desc)
			} else {
				// second failure: a third, clean attempt must work
				root3, r3 := makeRootGuarded(t)
				if r3.Err == nil && r3.Panic == nil {
					if err := reachCheck(cfg, w.Store, root3); err != nil {
						acc.add(cfg, "C03", []explore.Finding{{Sig: "C03|retry-succeeded-with-nodes-missing|" + cls, What: "after failed writes, a later MakeRoot reported success although a node reachable from the returned root is not in the store", Detail: err.Error()}}, append(desc, "then MakeRoot failing again, then MakeRoot"))
					}
				} else if r3.Err != nil || r3.Panic != nil {
					acc.add(cfg, "C03", []explore.Finding{{Sig: "C03|retry-fails-after-fault-cleared|" + resClass(r3), What: "MakeRoot keeps failing after the write fault has cleared", Detail: r3.String()}}, desc)
				}
			}
			// still accepts modifications
			k := 0
			ri := guardRes(func() error { return t.Insert(ctx, cfg.Keys[k], cfg.Vals[len(cfg.Vals)-1]) })
			if ri.Err != nil || ri.Panic != nil {
				acc.add(cfg, "C03", []explore.Finding{{Sig: "C03|insert-fails-after-failed-MakeRoot|" + resClass(ri), What: "the tree does not accept an insert after a failed MakeRoot", Detail: ri.String()}}, desc)
			}
		}
	}
}

func bucket(d int) string {
	if d == 1 {
		return "1"
	}
	return "2+"
}

// c03TwoStores: nodes are never skipped because a shared cache has seen them in a different store.
func c03TwoStores(cfg *world.Config, hist []world.Op, acc *pairAcc, st *c03Stats) {
	w, err := explore.Replay(cfg, hist, true)
	if err != nil || w.Cache == nil {
		return
	}
	t := w.Trees[0]
	c := w.ReadContents(t)
	if _, err := t.MakeRoot(ctx); err != nil {
		return
	}
	// a second tree with the same contents over a second store (different prefix), same cache;
	// the prefixes also differ only by a trailing or doubled slash or a "./" (distinct strings = distinct stores)
	for _, prefix2 := range []string{"mem://s2", w.Store.Prefix + "/", "mem:///s1", "./" + w.Store.Prefix} {
		st2 := env.NewStore(prefix2)
		t2, err := mast.NewRoot(cfg.CreateOptions()).LoadMast(ctx, w.RemoteConfig(st2, true))
		if err != nil {
			return
		}
		for _, k := range sortedKeys(c.M) {
			if c.M[k] >= 0 {
				t2.Insert(ctx, cfg.Key(k), cfg.Vals[c.M[k]])
			}
		}
		atomic.AddInt64(&st.evals, 1)
		var root2 *mast.Root
		r := guardRes(func() (err error) { root2, err = t2.MakeRoot(ctx); return })
		if r.Err != nil || r.Panic != nil {
			acc.add(cfg, "C03", []explore.Finding{{Sig: "C03|two-stores|MakeRoot-failed|" + resClass(r), What: "MakeRoot into a second store sharing the cache failed", Detail: r.String()}}, cfg.DescribeHist(hist))
			return
		}
		if err := reachCheck(cfg, st2, root2); err != nil {
			acc.add(cfg, "C03", []explore.Finding{{Sig: "C03|two-stores|node-skipped-because-cached-for-another-store", What: "a node was not written to the second store because the shared cache had seen it in the first", Detail: fmt.Sprintf("store prefixes %q and %q: %v", w.Store.Prefix, prefix2, err)}}, append(cfg.DescribeHist(hist), "persist; same contents built over a second store (other prefix) sharing the cache; persist"))
			return
		}
	}
}

// c03TwoS3Stores: the same question with two S3 stores on one endpoint and bucket whose object-key prefixes
// differ (two tenants of one bucket), sharing one NodeCache, over an in-process S3 client.
func c03TwoS3Stores(cfg *world.Config, hist []world.Op, acc *pairAcc, st *c03Stats) {
	w, err := explore.Replay(cfg, hist, true)
	if err != nil || w.Cache == nil {
		return
	}
	c := w.ReadContents(w.Trees[0])
	fs := newFakeS3()
	cache := mast.NewNodeCache(1000)
	for i, prefix := range []string{"tenantA/", "tenantB/", ""} {
		ps := masts3.NewPersist(fs, "http://endpoint", "bucket", prefix)
		rc := w.RemoteConfig(w.Store, false)
		rc.StoreImmutablePartsWith = &ps
		rc.NodeCache = cache
		t, err := mast.NewRoot(cfg.CreateOptions()).LoadMast(ctx, rc)
		if err != nil {
			return
		}
		for _, k := range sortedKeys(c.M) {
			if c.M[k] >= 0 {
				t.Insert(ctx, cfg.FreshKey(k), cfg.FreshVal(c.M[k]))
			}
		}
		var root *mast.Root
		r := guardRes(func() (err error) { root, err = t.MakeRoot(ctx); return })
		atomic.AddInt64(&st.evals, 1)
		if r.Err != nil || r.Panic != nil {
			acc.add(cfg, "C03", []explore.Finding{{Sig: "C03|two-s3-stores|MakeRoot-failed|" + resClass(r), What: "MakeRoot into an S3 store sharing the cache with another one failed", Detail: r.String()}}, cfg.DescribeHist(hist))
			return
		}
		get := func(n string) ([]byte, bool) {
			fs.mu.Lock()
			defer fs.mu.Unlock()
			b, ok := fs.objects["bucket\x00"+prefix+n]
			return b, ok
		}
		if _, err := codecFor(cfg).Walk(cfg.KS, get, linkOf(root), nil); err != nil {
			acc.add(cfg, "C03", []explore.Finding{{Sig: "C03|two-s3-stores|node-skipped-because-cached-for-another-store", What: "with S3 stores on one bucket under different key prefixes sharing one NodeCache, a node was not written under the prefix of the store its tree persists to", Detail: fmt.Sprintf("store #%d (prefix %q): %v", i+1, prefix, err)}},
				append(cfg.DescribeHist(hist), "the same contents built over S3 stores tenantA/, tenantB/ and \"\" of one bucket sharing one NodeCache; MakeRoot on each"))
			return
		}
	}
}

// c03TwoBuiltinStores: the same question with the library's own in-memory stores (two instances,
// one shared NodeCache): every node of a root must be loadable from the store it was persisted to.
func c03TwoBuiltinStores(cfg *world.Config, hist []world.Op, acc *pairAcc, st *c03Stats) {
	w, err := explore.Replay(cfg, hist, true)
	if err != nil || w.Cache == nil {
		return
	}
	c := w.ReadContents(w.Trees[0])
	cache := mast.NewNodeCache(1000)
	type side struct {
		st   mast.Persist
		root *mast.Root
	}
	var sides []side
	for i := 0; i < 2; i++ {
		stx := mast.NewInMemoryStore()
		rc := w.RemoteConfig(w.Store, false)
		rc.StoreImmutablePartsWith = stx
		rc.NodeCache = cache
		t, err := mast.NewRoot(cfg.CreateOptions()).LoadMast(ctx, rc)
		if err != nil {
			return
		}
		for _, k := range sortedKeys(c.M) {
			if c.M[k] >= 0 {
				t.Insert(ctx, cfg.Key(k), cfg.Vals[c.M[k]])
			}
		}
		var root *mast.Root
		r := guardRes(func() (err error) { root, err = t.MakeRoot(ctx); return })
		if r.Err != nil || r.Panic != nil {
			return
		}
		sides = append(sides, side{stx, root})
	}
	atomic.AddInt64(&st.evals, 1)
	for i, sd := range sides {
		get := func(n string) ([]byte, bool) {
			b, err := sd.st.Load(ctx, n)
			return b, err == nil
		}
		if _, err := codecFor(cfg).Walk(cfg.KS, get, linkOf(sd.root), nil); err != nil {
			acc.add(cfg, "C03", []explore.Finding{{Sig: "C03|two-builtin-stores|node-skipped-because-cached-for-another-store", What: "with two in-memory stores sharing one NodeCache, a node was not written to the store its tree persists to", Detail: fmt.Sprintf("store #%d: %v", i+1, err)}},
				append(cfg.DescribeHist(hist), "the same contents built over two mast.NewInMemoryStore() instances sharing one NodeCache; MakeRoot on both"))
			return
		}
	}
}

func C03SeqConfigs(thorough bool) []*world.Config {
	B, M := ref.FormatBinary, ref.FormatMarshaler
	cs := []*world.Config{
		world.UintCfg(2, urange(1, 5), 1, B, "none"),
		world.UintCfg(2, urange(1, 4), 1, M, "big"),
		world.LKeyCfg(2, []uint8{0, 2, 0, 1, 0}, 1, B, "none"),
	}
	if thorough {
		cs = append(cs, world.UintCfg(2, urange(1, 6), 1, B, "none"), world.UintCfg(2, urange(0, 8), 1, M, "none"), world.UintCfg(2, urange(1, 5), 1, B, "big"), world.UintCfg(3, ulist(1, 2, 3, 4, 6, 9), 1, B, "tiny1"))
	}
	return cs
}

// c03Saturation: a tree with more than 40 dirty nodes, so that flush's 40-slot gate
// saturates and (after a failure) queued writes are skipped; every single write fails in turn.
// The completion order is whatever the Go scheduler produces here (not enumerated): this part
// is fault-exhaustive only, which the evidence says.
func c03Saturation(run *report.Run, acc *pairAcc, st *c03Stats) {
	cfg := world.UintCfg(2, urange(1, 64), 1, ref.FormatBinary, "none")
	cfg.Name = "saturation/" + cfg.Name
	var hist []world.Op
	for k := range cfg.Keys {
		hist = append(hist, world.Op{Kind: world.OpIns, K: k, V: 0})
	}
	before := st.failing
	c03State(cfg, hist, acc, st, 1)
	run.Parts = append(run.Parts, map[string]interface{}{"part": "A: gate saturation (64 entries, >40 dirty nodes), every single write failing, free-running completion order", "executions_with_a_failing_write": st.failing - before})
}

func c03Sequential(run *report.Run, acc *pairAcc, st *c03Stats) {
	c03Saturation(run, acc, st)
	for _, cfg := range C03SeqConfigs(run.Thorough()) {
		hists := closureStatesBounded(run, "C03", cfg)
		run.States += int64(len(hists))
		ms := 1
		if run.Thorough() {
			ms = 2
		}
		parallelFor(len(hists), func(i int) {
			c03State(cfg, hists[i], acc, st, ms)
			c03TwoStores(cfg, hists[i], acc, st)
			c03TwoBuiltinStores(cfg, hists[i], acc, st)
			c03TwoS3Stores(cfg, hists[i], acc, st)
		})
		run.Parts = append(run.Parts, map[string]interface{}{"part": "A: fault sequences, in-order completion", "config": cfg.Name, "pre_states": len(hists)})
	}
}
