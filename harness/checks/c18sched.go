//go:build sched

package checks

import (
	"bytes"
	"fmt"

	"github.com/jrhy/mast"
	masts3 "github.com/jrhy/mast/persist/s3"
	"github.com/jrhy/mast/verifrt"
	"verifharness/explore"
	"verifharness/report"
	"verifharness/sched"
	"verifharness/world"
)

// C18 part B (engine S): two concurrent Stores of the same (name, bytes) and a
// concurrent Load, all interleavings; afterwards the name must load with exactly
// those bytes, and the concurrent Load may only have seen "not found" or the
// complete bytes. In-memory store: its mutex is instrumented. S3: every client
// call is a scheduling point. (The file backend's concurrency is not explored:
// its steps are system calls; its crash behaviour is C17.)
func c18Schedules(run *report.Run, acc *pairAcc) {
	cfg := &world.Config{Name: "backends"}
	payload := []byte{0, 1, 2, 0xff, 0xfe}
	name := "qynm3BZ1XQBx66NJ69oiXRXk-RDLR0VJxH6Vy4XsxNY"
	var total int64
	for _, be := range []string{"in-memory", "s3"} {
		be := be
		setup := func() func() func(*verifrt.Result) sched.Outcome {
			var p mast.Persist
			if be == "in-memory" {
				p = mast.NewInMemoryStore()
			} else {
				f := newFakeS3()
				f.gate = func(kind string) { verifrt.Env("s3:" + kind) }
				ps := masts3.NewPersist(f, "http://endpoint", "bucket", "pre/")
				p = &ps
			}
			var errs [2]error
			var got []byte
			var lerr error
			return func() func(*verifrt.Result) sched.Outcome {
				var wg verifrt.WaitGroup
				wg.Add(3)
				for i := 0; i < 2; i++ {
					i := i
					verifrt.Go(func() { defer wg.Done(); errs[i] = p.Store(ctx, name, payload) })
				}
				verifrt.Go(func() { defer wg.Done(); got, lerr = p.Load(ctx, name) })
				wg.Wait()
				return func(*verifrt.Result) sched.Outcome {
					out := sched.Outcome{Obs: fmt.Sprintf("%v %v load=%v/%d", errs[0], errs[1], lerr, len(got))}
					if errs[0] != nil || errs[1] != nil {
						out.Findings = append(out.Findings, fmt.Sprintf("concurrent-store-failed\x00a concurrent Store of the same name and bytes failed on a healthy backend\x00%v %v", errs[0], errs[1]))
					}
					if lerr == nil && !bytes.Equal(got, payload) {
						out.Findings = append(out.Findings, fmt.Sprintf("concurrent-load-saw-partial-data\x00a Load concurrent with the Stores returned neither an error nor the complete bytes\x00%d bytes", len(got)))
					}
					after, err := p.Load(ctx, name)
					if err != nil || !bytes.Equal(after, payload) {
						out.Findings = append(out.Findings, fmt.Sprintf("not-loadable-after-concurrent-stores\x00after two concurrent Stores of the same name and bytes the name is not loadable with those bytes\x00%v %d bytes", err, len(after)))
					}
					return out
				}
			}
		}
		ex := &sched.Explorer{Bound: 3, MaxPoints: 1000, Budget: 200000}
		ex.Explore(setup)
		total += ex.Schedules
		if ex.Capped {
			run.Exhaustive = false
		}
		if ex.Divergence != "" {
			run.HarnessError("C18 schedules %s: %s", be, ex.Divergence)
		}
		for sig, f := range ex.Findings {
			acc.add(cfg, "C18", []explore.Finding{{Sig: "C18|" + be[:2] + "|sched|" + sig, What: be + ": " + f.What, Detail: f.Detail}}, []string{"backend " + be, fmt.Sprintf("threads: Store(n,b) || Store(n,b) || Load(n); schedule %v", f.Choices)})
		}
		run.Parts = append(run.Parts, map[string]interface{}{"part": "B: concurrent stores (engine S)", "backend": be, "schedules": ex.Schedules, "preemption_bound": 3, "distinct_outcomes": len(ex.Outcomes)})
	}
	run.Extra["schedules_explored"] = total
	run.Extra["sync_level"] = true
}
