//go:build sched

package checks

import (
	"bytes"
	"fmt"

	"github.com/jrhy/mast"
	mastfile "github.com/jrhy/mast/persist/file"
	masts3 "github.com/jrhy/mast/persist/s3"
	"github.com/jrhy/mast/verifrt"
	"github.com/jrhy/mast/verifrt/vos"
	"verifharness/explore"
	"verifharness/report"
	"verifharness/sched"
	"verifharness/world"
)

// C18 part B (engine S): two concurrent Stores of the same (name, bytes) and a
// concurrent Load, all interleavings; afterwards the name must load with exactly
// those bytes, and the concurrent Load may only have seen "not found" or the
// complete bytes. In-memory store: its mutex is instrumented. S3: every client
// call is a scheduling point. File backend: its `import "os"` is rewritten to an in-memory file
// system whose every call is a scheduling point (a Write is two), provided the package uses nothing the
// shim does not model; otherwise that backend is reported as not explored. Its crash behaviour is C17.
// In every thread a Store that returned nil is followed at once by a Load of the same name.
func c18Schedules(run *report.Run, acc *pairAcc) {
	cfg := &world.Config{Name: "backends"}
	payload := []byte{0, 1, 2, 0xff, 0xfe}
	name := "qynm3BZ1XQBx66NJ69oiXRXk-RDLR0VJxH6Vy4XsxNY"
	var total int64
	fileVirtual := false
	for _, be := range []string{"in-memory", "s3", "file"} {
		be := be
		setup := func() func() func(*verifrt.Result) sched.Outcome {
			var p mast.Persist
			if be == "in-memory" {
				p = mast.NewInMemoryStore()
			} else if be == "file" {
				vos.Reset("/vfs", "/vfs/nodes")
				p = mastfile.NewPersistForPath("/vfs/nodes")
			} else {
				f := newFakeS3()
				f.gate = func(kind string) { verifrt.Env("s3:" + kind) }
				ps := masts3.NewPersist(f, "http://endpoint", "bucket", "pre/")
				p = &ps
			}
			var errs [2]error
			var got []byte
			var lerr error
			var after [2]string
			return func() func(*verifrt.Result) sched.Outcome {
				var wg verifrt.WaitGroup
				wg.Add(3)
				for i := 0; i < 2; i++ {
					i := i
					verifrt.Go(func() {
						defer wg.Done()
						errs[i] = p.Store(ctx, name, payload)
						if errs[i] == nil {
							// "after a successful write, loading that name returns exactly those bytes"
							if b, err := p.Load(ctx, name); err != nil || !bytes.Equal(b, payload) {
								after[i] = fmt.Sprintf("%v / %d bytes", err, len(b))
							}
						}
					})
				}
				verifrt.Go(func() { defer wg.Done(); got, lerr = p.Load(ctx, name) })
				wg.Wait()
				// still inside the controlled execution (the file backend's files exist only there)
				final, ferr := p.Load(ctx, name)
				virt := be == "file" && len(vos.Snapshot()) > 0
				return func(*verifrt.Result) sched.Outcome {
					out := sched.Outcome{Obs: fmt.Sprintf("%v %v load=%v/%d", errs[0], errs[1], lerr, len(got))}
					if virt {
						fileVirtual = true
					}
					for i := range after {
						if after[i] != "" {
							out.Findings = append(out.Findings, fmt.Sprintf("store-returned-nil-but-not-loadable\x00a Store returned nil while another Store of the same name and bytes was in flight, and a Load right after it did not return those bytes\x00%s", after[i]))
						}
					}
					if errs[0] != nil || errs[1] != nil {
						out.Findings = append(out.Findings, fmt.Sprintf("concurrent-store-failed\x00a concurrent Store of the same name and bytes failed on a healthy backend\x00%v %v", errs[0], errs[1]))
					}
					if lerr == nil && !bytes.Equal(got, payload) {
						out.Findings = append(out.Findings, fmt.Sprintf("concurrent-load-saw-partial-data\x00a Load concurrent with the Stores returned neither an error nor the complete bytes\x00%d bytes", len(got)))
					}
					after, err := final, ferr
					if err != nil || !bytes.Equal(after, payload) {
						out.Findings = append(out.Findings, fmt.Sprintf("not-loadable-after-concurrent-stores\x00after two concurrent Stores of the same name and bytes the name is not loadable with those bytes\x00%v %d bytes", err, len(after)))
					}
					return out
				}
			}
		}
		ex := &sched.Explorer{Bound: 3, MaxPoints: 1000, Budget: 200000}
		ex.Explore(setup)
		if be == "file" && !fileVirtual {
			// the instrumenter left persist/file on the real package os (see its note in build/instr.log): nothing was explored
			run.Parts = append(run.Parts, map[string]interface{}{"part": "B: concurrent stores (engine S)", "backend": be, "explored": false, "reason": "persist/file uses something the file-system shim does not model"})
			run.Exhaustive = false
			continue
		}
		total += ex.Schedules
		if ex.Capped {
			run.Exhaustive = false
		}
		if ex.Divergence != "" {
			run.HarnessError("C18 schedules %s: %s", be, ex.Divergence)
		}
		for sig, f := range ex.Findings {
			acc.add(cfg, "C18", []explore.Finding{{Sig: "C18|" + be[:2] + "|sched|" + sig, What: be + ": " + f.What, Detail: f.Detail}}, []string{"backend " + be, fmt.Sprintf("threads: Store(n,b) || Store(n,b) || Load(n); schedule %v", f.Choices)})
		}
		run.Parts = append(run.Parts, map[string]interface{}{"part": "B: concurrent stores (engine S)", "backend": be, "schedules": ex.Schedules, "preemption_bound": 3, "distinct_outcomes": len(ex.Outcomes)})
	}
	run.Extra["schedules_explored"] = total
	run.Extra["sync_level"] = true
}
