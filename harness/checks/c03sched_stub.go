//go:build !sched

package checks

import "verifharness/report"

// c03Schedules is provided by the scheduler build (engine S); this stub keeps the
// plain build self-contained.
func c03Schedules(run *report.Run, acc *pairAcc) {}
