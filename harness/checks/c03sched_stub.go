//go:build !sched

package checks

import "verifharness/report"

// c03Schedules is provided by the scheduler build (engine S); in the plain build
// (instrumentation refused or failed) the evidence says so.
func c03Schedules(run *report.Run, acc *pairAcc) {
	run.Extra["sync_level"] = false
	run.Extra["sync_level_note"] = "engine S was not available for this run (instrumentation of the current sources failed); only part A (fault sequences with in-order completion) was explored"
	run.Exhaustive = false
}
