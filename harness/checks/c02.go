package checks

import (
	"fmt"
	"sync"
	"sync/atomic"
	"time"

	"github.com/jrhy/mast"
	"verifharness/explore"
	"verifharness/ref"
	"verifharness/report"
	"verifharness/world"
)

// c02Mon: captured versions never change. Slots that an op does not target must
// read exactly as before the op; retained roots and cursors are re-read in
// every distinct state.
type c02Mon struct {
	explore.NopMonitor
}

type c02Pre struct {
	c []world.Contents
}

func opTarget(op world.Op) int {
	switch op.Kind {
	case world.OpClone:
		return op.B
	case world.OpCursor, world.OpGet, world.OpIter, world.OpPersist, world.OpKeep, world.OpFlushCache, world.OpPersistFail:
		return -1 // leaves every tree's contents alone
	}
	return op.A
}

func (m *c02Mon) Before(w *world.World, op world.Op) interface{} {
	// contents of every slot as last read (after the previous op of this world);
	// slots never read yet are read now
	p := c02Pre{c: make([]world.Contents, len(w.Trees))}
	for i, t := range w.Trees {
		if t == nil {
			w.LastC[i] = world.Contents{}
			continue
		}
		if w.LastC[i].M == nil {
			w.LastC[i] = w.ReadContents(t)
		}
		p.c[i] = w.LastC[i]
	}
	return p
}

func captureKind(w *world.World, slot int) string {
	// how the slot relates to the others is not visible from here; the signature
	// uses the op that disturbed it instead
	return ""
}

func (m *c02Mon) After(w *world.World, op world.Op, res world.Res, pre interface{}) []explore.Finding {
	p := pre.(c02Pre)
	var out []explore.Finding
	tgt := opTarget(op)
	cache := w.Cfg.Cache
	for i, t := range w.Trees {
		if t == nil || p.c[i].M == nil || p.c[i].Bad != "" {
			continue
		}
		if i == tgt && (res.Err == nil && res.Panic == nil) && (op.Kind == world.OpIns || op.Kind == world.OpDel || op.Kind == world.OpLoad || op.Kind == world.OpLoadNoCache || op.Kind == world.OpClone || op.Kind == world.OpDrop) {
			w.LastC[i] = world.Contents{} // legitimately changed: re-read lazily
			continue
		}
		got := w.ReadContents(t)
		w.LastC[i] = got
		if !got.Equal(p.c[i]) {
			who := "another-tree"
			if i == op.A {
				who = "the-same-tree"
			}
			out = append(out, explore.Finding{Sig: fmt.Sprintf("C02|tree-changed-by-%s-on-%s|cache=%s|%s", opNameOf(op), who, cache, report.Norm(got.Bad)),
				What:   fmt.Sprintf("the contents of a tree changed although the operation (%s) was applied to %s", opNameOf(op), who),
				Detail: fmt.Sprintf("slot %d before %v after %v", i, p.c[i], got), Block: true})
		}
	}
	if res.Err == nil && res.Panic == nil {
		switch op.Kind {
		case world.OpClone:
			if got := w.ReadContents(w.Trees[op.B]); !got.Equal(p.c[op.A]) {
				out = append(out, explore.Finding{Sig: "C02|clone-differs-from-source|cache=" + cache, What: "a fresh clone does not have the source's contents", Detail: fmt.Sprintf("source %v clone %v", p.c[op.A], got), Block: true})
			}
		case world.OpLoad, world.OpLoadNoCache:
			if got := w.ReadContents(w.Trees[op.A]); !got.Equal(w.RootC[op.B]) {
				out = append(out, explore.Finding{Sig: fmt.Sprintf("C02|retained-root-changed|via-%s|cache=%s|%s", opNameOf(op), cache, report.Norm(got.Bad)), What: "loading a retained root yields contents different from those captured when it was persisted",
					Detail: fmt.Sprintf("captured %v loaded %v", w.RootC[op.B], got), Block: true})
			}
		}
	}
	return out
}

func opNameOf(op world.Op) string {
	return map[world.OpKind]string{world.OpIns: "Insert", world.OpDel: "Delete", world.OpPersist: "MakeRoot", world.OpReload: "MakeRoot+LoadMast", world.OpReloadJSON: "MakeRoot+LoadMast",
		world.OpKeep: "MakeRoot", world.OpLoad: "LoadMast(cache)", world.OpLoadNoCache: "LoadMast(nocache)", world.OpClone: "Clone", world.OpCursor: "Cursor", world.OpGet: "Get", world.OpIter: "Iter", world.OpDrop: "drop", world.OpFlushCache: "cache-flush", world.OpPersistFail: "failing-MakeRoot"}[op.Kind]
}

func (m *c02Mon) OnState(w *world.World, hist []world.Op) []explore.Finding {
	var out []explore.Finding
	cfg := w.Cfg
	cache := cfg.Cache
	// cursors first (they do not touch the cache beyond loads)
	for i, cur := range w.Cursors {
		if cur == nil {
			continue
		}
		want := w.CursorC[i]
		var got []int
		var vals []int
		r := guardRes(func() error {
			if err := cur.Min(ctx); err != nil {
				return err
			}
			for n := 0; n < 1000; n++ {
				k, v, ok := cur.Get()
				if !ok {
					return nil
				}
				got = append(got, keyIndex(cfg, k))
				vals = append(vals, cfg.ValIndex(v))
				if err := cur.Forward(ctx); err != nil {
					return err
				}
			}
			return fmt.Errorf("cursor walk did not end")
		})
		wk := sortedKeys(want.M)
		bad := r.Err != nil || r.Panic != nil || len(got) != len(wk)
		if !bad {
			for j := range wk {
				if got[j] != wk[j] || vals[j] != want.M[wk[j]] {
					bad = true
				}
			}
		}
		if bad {
			out = append(out, explore.Finding{Sig: fmt.Sprintf("C02|cursor-view-changed|cache=%s|%s", cache, resClass(r)), What: "a cursor opened earlier no longer walks the entries the tree had when it was opened",
				Detail: fmt.Sprintf("captured %v, walk gave keys %v vals %v (%v)", want, got, vals, r)})
		}
	}
	for i, root := range w.Roots {
		if root == nil {
			continue
		}
		for _, withCache := range []bool{false, true} {
			if withCache && w.Cache == nil {
				continue
			}
			var t *mast.Mast
			r := guardRes(func() (err error) { t, err = root.LoadMast(ctx, w.RemoteConfig(w.Store, withCache)); return })
			var got world.Contents
			if r.Err == nil && r.Panic == nil {
				got = w.ReadContents(t)
			}
			if r.Err != nil || r.Panic != nil || !got.Equal(w.RootC[i]) {
				via := "nocache"
				if withCache {
					via = "cache"
				}
				out = append(out, explore.Finding{Sig: fmt.Sprintf("C02|retained-root-changed|via-LoadMast(%s)|cache=%s|%s%s", via, cache, resClass(r), report.Norm(got.Bad)), What: "loading a retained root yields contents different from those captured when it was persisted",
					Detail: fmt.Sprintf("captured %v loaded %v (%v)", w.RootC[i], got, r)})
			}
		}
	}
	return out
}

// capture kinds of the fan-out
var c02Captures = map[string][]world.Op{
	"clone":           {{Kind: world.OpClone, A: 0, B: 1}},
	"root+load":       {{Kind: world.OpKeep, A: 0, B: 0}, {Kind: world.OpLoad, A: 1, B: 0}},
	"root+loadnc":     {{Kind: world.OpKeep, A: 0, B: 0}, {Kind: world.OpLoadNoCache, A: 1, B: 0}},
	"cursor":          {{Kind: world.OpCursor, A: 0}},
	"clone-of-clone":  {{Kind: world.OpClone, A: 0, B: 1}, {Kind: world.OpClone, A: 1, B: 2}},
	"root+load-twice": {{Kind: world.OpKeep, A: 0, B: 0}, {Kind: world.OpLoad, A: 1, B: 0}, {Kind: world.OpLoad, A: 2, B: 0}},
	// the cache lost its entries after the version was persisted: both loads decode nodes from the
	// store, the second one is served the objects the first one put into the cache
	"root+coldload-twice": {{Kind: world.OpKeep, A: 0, B: 0}, {Kind: world.OpFlushCache}, {Kind: world.OpLoad, A: 1, B: 0}, {Kind: world.OpLoad, A: 2, B: 0}},
	// the version is captured after a MakeRoot that failed half-way (some nodes written, others not) and was retried
	"failedflush0+root+load":     {{Kind: world.OpPersistFail, A: 0, V: 0}, {Kind: world.OpKeep, A: 0, B: 0}, {Kind: world.OpLoad, A: 1, B: 0}},
	"failedflush1+root+load":     {{Kind: world.OpPersistFail, A: 0, V: 1}, {Kind: world.OpKeep, A: 0, B: 0}, {Kind: world.OpLoad, A: 1, B: 0}},
	"failedflush2+root+load":     {{Kind: world.OpPersistFail, A: 0, V: 2}, {Kind: world.OpKeep, A: 0, B: 0}, {Kind: world.OpLoad, A: 1, B: 0}},
	"failedflush0+persist+clone": {{Kind: world.OpPersistFail, A: 0, V: 0}, {Kind: world.OpPersist, A: 0}, {Kind: world.OpClone, A: 0, B: 1}},
	"failedflush1+persist+clone": {{Kind: world.OpPersistFail, A: 0, V: 1}, {Kind: world.OpPersist, A: 0}, {Kind: world.OpClone, A: 0, B: 1}},
	"failedflush2+persist+clone": {{Kind: world.OpPersistFail, A: 0, V: 2}, {Kind: world.OpPersist, A: 0}, {Kind: world.OpClone, A: 0, B: 1}},
}

var c02FailedFlushCaptures = []string{"failedflush0+root+load", "failedflush1+root+load", "failedflush2+root+load", "failedflush0+persist+clone", "failedflush1+persist+clone", "failedflush2+persist+clone"}

func c02Ops(cfg *world.Config, slots int, allVals bool) []world.Op {
	var ops []world.Op
	for s := 0; s < slots; s++ {
		for k := range cfg.Keys {
			if allVals {
				for v := range cfg.Vals {
					ops = append(ops, world.Op{Kind: world.OpIns, A: s, K: k, V: v})
				}
			} else {
				ops = append(ops, world.Op{Kind: world.OpIns, A: s, K: k, V: len(cfg.Vals) - 1})
			}
			for v := range cfg.Vals {
				ops = append(ops, world.Op{Kind: world.OpDel, A: s, K: k, V: v})
			}
		}
		ops = append(ops, world.Op{Kind: world.OpPersist, A: s}, world.Op{Kind: world.OpReload, A: s})
		ops = append(ops, FlushFaultOps(cfg, s)...)
	}
	if !cfg.InMemory {
		ops = append(ops, world.Op{Kind: world.OpKeep, A: 0, B: 1}, world.Op{Kind: world.OpKeep, A: 1, B: 1}, world.Op{Kind: world.OpLoad, A: 1, B: 1}, world.Op{Kind: world.OpLoad, A: 1, B: 0})
	}
	ops = append(ops, world.Op{Kind: world.OpClone, A: 0, B: 1}, world.Op{Kind: world.OpClone, A: 1, B: 0})
	return ops
}

type c02Plan struct {
	cfg      *world.Config
	captures []string
	L        int
	allVals  bool
	// bases: 0 = every state of the single-tree closure; 1 = every persisted
	// version (each subset of the universe, built insert-only, persisted and reloaded)
	versions int
}

// versionHists returns, for every assignment of {absent, value} to the keys, a
// history that builds and persists that version.
func versionHists(cfg *world.Config) [][]world.Op {
	nk, nv := len(cfg.Keys), len(cfg.Vals)
	total := 1
	for i := 0; i < nk; i++ {
		total *= nv + 1
	}
	out := make([][]world.Op, 0, total)
	for idx := 0; idx < total; idx++ {
		x := idx
		digits := make([]int, nk)
		for i := 0; i < nk; i++ {
			digits[i] = x % (nv + 1)
			x /= nv + 1
		}
		var h []world.Op
		for s := 0; s < nk; s++ {
			kk := (s + idx) % nk
			if digits[kk] > 0 {
				h = append(h, world.Op{Kind: world.OpIns, K: kk, V: digits[kk] - 1})
			}
		}
		h = append(h, world.Op{Kind: world.OpReload})
		out = append(out, h)
	}
	return out
}

// C02 driver.
func C02(run *report.Run) {
	B, M := ref.FormatBinary, ref.FormatMarshaler
	var plans []c02Plan
	// an 8-key universe with two layer-2 keys: height-2 trees whose level-1 nodes get split by a
	// layer-2 insert in one version while another version inserts below them
	deep := func(f, cache string) *world.Config {
		return world.LKeyCfg(2, []uint8{0, 1, 0, 0, 2, 0, 1, 2}, 1, f, cache)
	}
	if !run.Thorough() {
		plans = []c02Plan{
			{world.UintCfg(2, urange(1, 5), 1, B, "big"), []string{"clone", "root+load", "cursor"}, 2, true, 0},
			{world.UintCfg(2, urange(1, 4), 1, M, "big"), []string{"root+coldload-twice"}, 2, true, 0},
			{world.UintCfg(2, urange(1, 4), 1, B, "big"), []string{"root+coldload-twice"}, 2, true, 0},
			{TaggedCached(0, 1), []string{"root+coldload-twice", "root+load"}, 2, true, 0},
			{world.UintCfg(2, urange(1, 4), 2, M, "none"), []string{"clone"}, 2, true, 0},
			{world.UintCfg(2, ulist(1, 2, 4), 2, M, "none"), []string{"root+loadnc"}, 2, true, 0},
			{world.UintCfg(2, urange(1, 4), 1, B, "tiny1"), []string{"clone", "root+load"}, 2, true, 0},
			{world.LKeyCfg(2, []uint8{0, 2, 0, 1, 0}, 1, B, "big"), []string{"clone", "root+load"}, 2, true, 0},
			{deep(B, "big"), []string{"root+load", "clone"}, 2, true, 1},
			{world.IntCfg(2, []int{1, 2, 3, 4}, []interface{}{[]int{1}, []int{2, 3}}, []int{}, M, "big"), []string{"root+load"}, 2, true, 0},
			{world.IntCfg(2, []int{1, 2, 4}, []interface{}{[]int{1}, []int{2, 3}}, []int{}, M, "big"), []string{"clone"}, 2, true, 0},
			// captures taken after a failed and retried MakeRoot; failing MakeRoot calls also in the continuations
			{world.WithFlushFaults(world.UintCfg(2, urange(1, 5), 1, B, "big")), c02FailedFlushCaptures, 2, true, 0},
			// base sets merged on the exact key: the same tree reached with spare capacity in its node slices is a base of its own
			{world.ExactKey(world.UintCfg(2, urange(1, 4), 1, B, "big")), []string{"clone", "root+load", "cursor"}, 2, true, 0},
			{world.ExactKey(world.IntCfg(4, []int{1, 4, 5, 8, 9, 12}, []interface{}{"a"}, "", B, "big")), []string{"root+load"}, 2, true, 0},
			{world.ExactKey(world.IntCfg(4, []int{1, 4, 5, 8, 12}, []interface{}{"a"}, "", B, "big")), []string{"clone"}, 2, true, 0},
		}
	} else {
		all := []string{"clone", "root+load", "root+loadnc", "cursor", "clone-of-clone", "root+load-twice", "root+coldload-twice"}
		plans = []c02Plan{
			{world.UintCfg(2, urange(1, 5), 1, B, "big"), []string{"clone", "root+load"}, 3, true, 0},
			{world.UintCfg(2, urange(1, 5), 1, B, "big"), all[2:], 2, true, 0},
			{world.UintCfg(2, urange(1, 5), 2, B, "big"), all, 2, true, 0},
			{world.UintCfg(2, urange(1, 5), 2, M, "none"), all[:5], 2, true, 0},
			{world.UintCfg(2, urange(1, 5), 1, M, "big"), all, 2, true, 0},
			{world.UintCfg(2, urange(1, 4), 2, B, "tiny1"), all, 2, true, 0},
			{world.UintCfg(2, urange(1, 4), 1, B, "tiny2"), []string{"clone", "root+load", "root+coldload-twice"}, 3, true, 0},
			{world.UintCfg(3, ulist(1, 2, 3, 4, 6, 9), 1, B, "big"), all, 2, true, 0},
			{deep(B, "big"), []string{"root+load", "clone", "root+load-twice"}, 2, true, 1},
			{deep(M, "tiny2"), []string{"root+load", "clone"}, 2, true, 1},
			{deep(B, "none"), []string{"root+loadnc", "clone"}, 2, true, 1},
		}
		for _, l := range lkeyQuick {
			plans = append(plans, c02Plan{world.LKeyCfg(2, l, 1, B, "big"), []string{"clone", "root+load", "cursor"}, 2, true, 0})
		}
	}
	families, worlds := fanOut(run, "C02", plans, func(*world.Config) explore.Monitor { return &c02Mon{} })
	_ = worlds
	// a free two-slot search from the empty world, as a net for combinations the fan-out shape does not anticipate
	freeDepth := 5
	if run.Thorough() {
		freeDepth = 7
	}
	for _, fc := range []*world.Config{world.UintCfg(2, ulist(1, 2, 4), 1, B, "big"), world.UintCfg(2, ulist(1, 2, 4), 1, M, "tiny1")} {
		ops := c02Ops(fc, 2, true)
		ops = append(ops, world.Op{Kind: world.OpLoadNoCache, A: 1, B: 0}, world.Op{Kind: world.OpFlushCache}, world.Op{Kind: world.OpCursor, A: 0}, world.Op{Kind: world.OpKeep, A: 0, B: 0})
		e := &explore.Explorer{Cfg: fc, Ops: ops, Mon: &c02Mon{}, Reduced: true, MaxDepth: freeDepth, MaxStates: 400000}
		if !world.HookAvailable {
			e.MaxDepth = 3
		}
		e.Run()
		if e.HarnessErr != nil {
			run.HarnessError("free search %s: %v", fc.Name, e.HarnessErr)
		}
		run.States += e.States
		run.Transitions += e.Transitions
		if !e.BoundDone && !e.Exhaustive {
			run.Exhaustive = false
		}
		for _, f := range e.Findings {
			run.Add(report.Violation{Sig: f.Sig + "|free-search", What: f.What, Detail: f.Detail, Config: fc.Name, Check: "C02", History: fc.DescribeHist(f.Hist), Replay: map[string]interface{}{"config": fc.Name, "ops": f.Hist}, Count: f.Count})
		}
		run.Parts = append(run.Parts, map[string]interface{}{"part": "free two-slot search from the empty world", "config": fc.Name, "depth": e.Depth, "states": e.States, "transitions": e.Transitions, "all_histories_up_to_depth_bound": e.BoundDone, "alphabet": len(ops)})
	}
	run.Validated = run.Transitions
	run.Extra["families"] = families
	run.AddSample(map[string]interface{}{"base": "every state of the single-tree closure", "capture": "clone | keep root + LoadMast through the cache | ... without cache | cursor | clone of clone | two loads of one root",
		"then": "every sequence of <=L operations over all slots (insert/delete/MakeRoot/reload/keep/load/clone)", "oracle": "trees not targeted by an op read exactly as before it; every retained root reloads (with and without cache) to its captured contents; the cursor walks its captured entries"})
	run.Rule = "closure x bounded fan-out: base states = full single-tree closure (engine W); for every base and every capture, BFS over all continuations of length <= L with de-duplication on the heap dump; every transition runs the real implementation"
	run.Assumptions = append(run.Assumptions, "continuations longer than L after a capture and more than 3 live trees are not explored (a free multi-slot closure does not terminate: 4.1M states at depth 13 for 3 keys)")
}

// fanOut runs the closure x capture x continuation search of the given plans with the monitor of the
// calling check: base states = every state of the single-tree closure (or every persisted version), a
// capture that creates a second (third) tree value of the same version, then every continuation of
// length <= L over all slots.
func fanOut(run *report.Run, check string, plans []c02Plan, mon func(*world.Config) explore.Monitor) (int64, int64) {
	var families, worlds int64
	for _, pl := range plans {
		// bases: the single-slot closure is explored WITHOUT the cache-read ops exploding it:
		// the base alphabet is ins/del/persist/reload; cached reads happen in the continuation's observers
		baseCfg := *pl.cfg
		planStart := time.Now()
		var bases [][]world.Op
		if pl.versions == 1 {
			bases = versionHists(&baseCfg)
		} else {
			bases = closureStatesBounded(run, check, &baseCfg)
			if _, capped := run.Extra["bases_capped:"+baseCfg.Name]; capped && len(bases) > 500 {
				bases = bases[:500] // BFS order: the 500 shortest histories
			}
		}
		var mu sync.Mutex
		parallelFor(len(bases)*len(pl.captures), func(idx int) {
			b := bases[idx/len(pl.captures)]
			capName := pl.captures[idx%len(pl.captures)]
			fam := *pl.cfg
			fam.Seed = append(append([]world.Op{}, b...), c02Captures[capName]...)
			slots := 2
			if capName == "clone-of-clone" || capName == "root+load-twice" || capName == "root+coldload-twice" {
				slots = 3
			}
			e := &explore.Explorer{Cfg: &fam, Ops: c02Ops(&fam, slots, pl.allVals), Mon: mon(&fam), Reduced: true, MaxDepth: pl.L, Workers: 1}
			if !world.HookAvailable && pl.L > 1 {
				e.MaxDepth = 1
			}
			e.Run()
			atomic.AddInt64(&families, 1)
			atomic.AddInt64(&worlds, e.States)
			mu.Lock()
			defer mu.Unlock()
			if e.HarnessErr != nil {
				// a capture that cannot be built on this base (e.g. cursor on ...) is a finding of the base run, not here
				run.HarnessError("%s base %v capture %s: %v", pl.cfg.Name, pl.cfg.DescribeHist(b), capName, e.HarnessErr)
				return
			}
			run.States += e.States
			run.Transitions += e.Transitions
			for _, f := range e.Findings {
				hist := append(append([]world.Op{}, fam.Seed...), f.Hist...)
				run.Add(report.Violation{Sig: f.Sig + "|capture=" + capName, What: f.What, Detail: f.Detail, Config: pl.cfg.Name, Check: check,
					History: pl.cfg.DescribeHist(hist), Replay: map[string]interface{}{"config": pl.cfg.Name, "ops": hist}, Count: f.Count})
			}
		})
		run.Parts = append(run.Parts, map[string]interface{}{"part": "fan-out: closure x capture x continuations", "config": pl.cfg.Name, "bases": len(bases), "captures": pl.captures, "continuation_len": pl.L, "all_values": pl.allVals, "bases_are_persisted_versions": pl.versions == 1, "wall_s": time.Since(planStart).Seconds()})
	}
	return families, worlds
}

// closureStatesBounded returns the shortest histories of all single-tree states
// (alphabet without cached reads).
func closureStatesBounded(run *report.Run, check string, cfg *world.Config) [][]world.Op {
	c2 := *cfg
	// the tree states are enumerated on the cache-less twin (a closed set); replayed
	// under the real configuration each comes with the cache state its history produces
	c2.Cache = "none"
	ops := SingleOps(&c2, true)
	var filtered []world.Op
	for _, op := range ops {
		if op.Kind == world.OpGet || op.Kind == world.OpIter {
			continue
		}
		filtered = append(filtered, op)
	}
	// the largest closure of these universes on a correct tree has 1 488 states (thorough tier); a base set that
	// does not close by 8 000 belongs to code whose state space no longer closes, and fanning out from tens of
	// thousands of bases would take hours: the BFS prefix is used and the evidence says so
	maxStates := int64(8000)
	e := &explore.Explorer{Cfg: &c2, Ops: filtered, Mon: explore.NopMonitor{}, Reduced: !c2.Exact, KeepHists: true, MaxStates: maxStates, MaxDepth: c2.MaxDepth}
	if !world.HookAvailable {
		e.MaxDepth = 2
	}
	e.Run()
	if e.HarnessErr != nil {
		run.HarnessError("%s: %v", cfg.Name, e.HarnessErr)
		return nil
	}
	if !e.Exhaustive && !e.BoundDone {
		run.Exhaustive = false
		run.Extra["bases_capped:"+cfg.Name] = fmt.Sprintf("base set is the BFS prefix of %d states (depth %d), not the closure", e.States, e.Depth)
	}
	return e.Hists
}
