package checks

import (
	"encoding/json"
	"fmt"
	"os"
	"os/exec"
	"path/filepath"
	"strings"

	"verifharness/report"
)

// C03 part C (engine Q): the test binary built with go1.26.8 from /verif/harnessq runs
// MakeRoot of the UNMODIFIED package inside a testing/synctest bubble and enumerates every
// completion order of the parked Store calls x every single failing write (<=4 dirty nodes).
func c03Synctest(run *report.Run) {
	bin := filepath.Join(filepath.Dir(os.Args[0]), "q.test")
	if _, err := os.Stat(bin); err != nil {
		run.Extra["synctest_pass"] = "not run: go1.26.8 test binary not built"
		return
	}
	out := filepath.Join(os.TempDir(), fmt.Sprintf("verif-q-%d.json", os.Getpid()))
	defer os.Remove(out)
	cmd := exec.Command(bin, "-test.run", "TestQ", "-test.timeout", "20m")
	cmd.Env = append(os.Environ(), "VERIF_Q_OUT="+out)
	txt, err := cmd.CombinedOutput()
	b, rerr := os.ReadFile(out)
	if rerr != nil {
		// the bubble died inside the code under test (deadlocked goroutines, panic)
		run.Add(report.Violation{Sig: "C03|synctest|run-did-not-complete", What: "MakeRoot of the unmodified package did not complete inside the synctest bubble (panic or blocked goroutines)", Detail: fmt.Sprintf("%v: %s", err, tailStr(string(txt), 1500)), Check: "C03-synctest"})
		return
	}
	var res struct {
		Scenarios  int      `json:"scenarios"`
		Executions int64    `json:"executions"`
		MaxParked  int      `json:"max_parked_at_once"`
		Findings   []string `json:"findings"`
		Sample     []string `json:"sample"`
	}
	json.Unmarshal(b, &res)
	run.Transitions += res.Executions
	run.Validated += res.Executions
	run.Parts = append(run.Parts, map[string]interface{}{"part": "C: engine Q - unmodified code in a testing/synctest bubble, every completion order of the parked Store calls x every single failing write", "scenarios": res.Scenarios, "executions": res.Executions, "max_store_calls_parked_at_once": res.MaxParked})
	if len(res.Sample) > 0 {
		run.AddSample(map[string]interface{}{"part_C": res.Sample})
	}
	for _, f := range res.Findings {
		sig := f
		if i := strings.IndexAny(f, ":|"); i > 0 {
			sig = strings.TrimSpace(f[:i])
		}
		run.Add(report.Violation{Sig: "C03|synctest|" + report.Norm(sig), What: "under a controlled completion order of the Store calls (unmodified code): " + sig, Detail: f, Check: "C03-synctest"})
	}
}

func tailStr(s string, n int) string {
	if len(s) > n {
		return s[len(s)-n:]
	}
	return s
}
