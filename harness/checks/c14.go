package checks

import (
	"encoding/json"
	"fmt"
	"math"
	"os"
	"path/filepath"
	"sort"
	"strings"
	"sync"
	"sync/atomic"

	"github.com/jrhy/mast"
	"verifharness/env"
	"verifharness/explore"
	"verifharness/ref"
	"verifharness/report"
	"verifharness/world"
)

// C14: the serialized format, hashing inputs, key order and layers are frozen.
// Three-way comparison: implementation == independent re-implementation (ref) ==
// golden vectors in /verif/golden (generated once, never rewritten by a check).

var c14BFs = []uint{2, 3, 4, 5, 6, 7, 8, 9, 10, 11, 12, 13, 14, 15, 16, 17, 32, 64, 256}

func c14IntInputs(bf uint) []int64 {
	var xs []int64
	for i := int64(-300); i <= 300; i++ {
		xs = append(xs, i)
	}
	p := int64(1)
	for k := 0; k < 64; k++ {
		for _, m := range []int64{1, 3, -1, -5} {
			if p <= math.MaxInt64/5 {
				xs = append(xs, p*m)
			}
		}
		xs = append(xs, p+1, p-1)
		if p > math.MaxInt64/int64(bf) {
			break
		}
		p *= int64(bf)
	}
	xs = append(xs, math.MaxInt64, math.MinInt64+1, math.MinInt64)
	return xs
}

func c14UintInputs(bf uint) []uint64 {
	var xs []uint64
	for i := uint64(0); i <= 300; i++ {
		xs = append(xs, i)
	}
	p := uint64(1)
	for k := 0; k < 64; k++ {
		xs = append(xs, p, p+1, p-1)
		if p <= math.MaxUint64/3 {
			xs = append(xs, p*3)
		}
		if p > math.MaxUint64/uint64(bf) {
			break
		}
		p *= uint64(bf)
	}
	xs = append(xs, math.MaxUint64, 1<<63, 1<<53+1)
	return xs
}

func c14Strings() []string {
	var xs []string
	xs = append(xs, "", "a", "hey", "path/1/2/3", "\x00", "日本語", strings.Repeat("x", 300))
	for i := 0; i < 500; i++ {
		xs = append(xs, fmt.Sprintf("key-%d", i*7919))
	}
	return xs
}

type c14Struct struct {
	A string
	B int
}

// layerRows computes, with the given layer function, one row of digits per (type, bf).
func layerRows(layer func(k interface{}, bf uint) (uint8, error)) (map[string]string, error) {
	rows := map[string]string{}
	const digits = "0123456789abcdefghijklmnopqrstuvwxyzABCDEFGHIJKLMNOPQRSTUVWXYZ+/" // layers 0..63 (64 bits never give more)
	digit := func(l uint8) byte {
		if int(l) < len(digits) {
			return digits[l]
		}
		return '!'
	}
	for _, bf := range c14BFs {
		ints := c14IntInputs(bf)
		uints := c14UintInputs(bf)
		add := func(typ string, n int, key func(i int) (interface{}, bool)) error {
			var sb strings.Builder
			for i := 0; i < n; i++ {
				k, ok := key(i)
				if !ok {
					sb.WriteByte('.')
					continue
				}
				l, err := layer(k, bf)
				if err != nil {
					return fmt.Errorf("%s bf %d: %w", typ, bf, err)
				}
				sb.WriteByte(digit(l))
			}
			rows[fmt.Sprintf("%s/bf%d", typ, bf)] = sb.String()
			return nil
		}
		steps := []func() error{
			func() error {
				return add("int", len(ints), func(i int) (interface{}, bool) { return int(ints[i]), true })
			},
			func() error { return add("int64", len(ints), func(i int) (interface{}, bool) { return ints[i], true }) },
			func() error {
				return add("int32", len(ints), func(i int) (interface{}, bool) {
					return int32(ints[i]), ints[i] >= math.MinInt32 && ints[i] <= math.MaxInt32
				})
			},
			func() error {
				return add("int16", len(ints), func(i int) (interface{}, bool) {
					return int16(ints[i]), ints[i] >= math.MinInt16 && ints[i] <= math.MaxInt16
				})
			},
			func() error {
				return add("int8", len(ints), func(i int) (interface{}, bool) {
					return int8(ints[i]), ints[i] >= math.MinInt8 && ints[i] <= math.MaxInt8
				})
			},
			func() error {
				return add("uint", len(uints), func(i int) (interface{}, bool) { return uint(uints[i]), true })
			},
			func() error {
				return add("uint64", len(uints), func(i int) (interface{}, bool) { return uints[i], true })
			},
			func() error {
				return add("uint32", len(uints), func(i int) (interface{}, bool) { return uint32(uints[i]), uints[i] <= math.MaxUint32 })
			},
			func() error {
				return add("uint16", len(uints), func(i int) (interface{}, bool) { return uint16(uints[i]), uints[i] <= math.MaxUint16 })
			},
			func() error {
				return add("uint8", len(uints), func(i int) (interface{}, bool) { return uint8(uints[i]), uints[i] <= math.MaxUint8 })
			},
		}
		strs := c14Strings()
		steps = append(steps,
			func() error {
				return add("string", len(strs), func(i int) (interface{}, bool) { return strs[i], true })
			},
			func() error {
				return add("bytes", len(strs), func(i int) (interface{}, bool) { return []byte(strs[i]), true })
			},
			func() error {
				return add("struct", 200, func(i int) (interface{}, bool) { return c14Struct{A: strs[i], B: i * 31}, true })
			},
			func() error {
				return add("userkey", 40, func(i int) (interface{}, bool) { return world.LKey{K: i, L: uint8(i % 7)}, true })
			},
		)
		for _, f := range steps {
			if err := f(); err != nil {
				return nil, err
			}
		}
	}
	return rows, nil
}

func refLayer(k interface{}, bf uint) (uint8, error) {
	switch v := k.(type) {
	case int:
		return ref.IntLayer(int64(v), bf), nil
	case int8:
		return ref.IntLayer(int64(v), bf), nil
	case int16:
		return ref.IntLayer(int64(v), bf), nil
	case int32:
		return ref.IntLayer(int64(v), bf), nil
	case int64:
		return ref.IntLayer(v, bf), nil
	case uint:
		return ref.UintLayer(uint64(v), bf), nil
	case uint8:
		return ref.UintLayer(uint64(v), bf), nil
	case uint16:
		return ref.UintLayer(uint64(v), bf), nil
	case uint32:
		return ref.UintLayer(uint64(v), bf), nil
	case uint64:
		return ref.UintLayer(v, bf), nil
	case string:
		return ref.BlobLayer([]byte(v), bf), nil
	case []byte:
		return ref.BlobLayer(v, bf), nil
	case world.LKey:
		return v.L, nil
	}
	b, err := json.Marshal(k)
	if err != nil {
		return 0, err
	}
	return ref.BlobLayer(b, bf), nil
}

// orderRows: comparison matrices over a fixed set per type.
func orderRows(cmp func(a, b interface{}) (int, error)) (map[string]string, error) {
	sets := map[string][]interface{}{
		"string":  {"", "a", "A", "aa", "ab", "b", "é", "z", "\x00", "hey", "日本", "~"},
		"int":     {-300, -2, -1, 0, 1, 2, 3, 16, 17, 255, 256, math.MaxInt64},
		"int64":   {int64(math.MinInt64), int64(-5), int64(-1), int64(0), int64(1), int64(2), int64(1 << 40), int64(math.MaxInt64)},
		"uint":    {uint(0), uint(1), uint(2), uint(3), uint(16), uint(1 << 40), uint(math.MaxUint64)},
		"uint64":  {uint64(0), uint64(1), uint64(1<<53 + 1), uint64(1 << 63), uint64(math.MaxUint64)},
		"int8":    {int8(-128), int8(-10), int8(-9), int8(-1), int8(0), int8(1), int8(9), int8(10), int8(100), int8(127)},
		"int16":   {int16(-300), int16(-10), int16(-9), int16(0), int16(9), int16(10), int16(99), int16(100), int16(32767)},
		"int32":   {int32(math.MinInt32), int32(-10), int32(-9), int32(0), int32(2), int32(9), int32(10), int32(100), int32(math.MaxInt32)},
		"uint8":   {uint8(0), uint8(1), uint8(2), uint8(9), uint8(10), uint8(19), uint8(100), uint8(255)},
		"uint16":  {uint16(0), uint16(9), uint16(10), uint16(100), uint16(999), uint16(1000), uint16(65535)},
		"uint32":  {uint32(0), uint32(9), uint32(10), uint32(100), uint32(1 << 31), uint32(math.MaxUint32)},
		"bytes":   {[]byte{}, []byte{0}, []byte{0, 0}, []byte{1}, []byte{0xff}, []byte("a"), []byte("ab"), []byte("b")},
		"struct":  {c14Struct{"a", 1}, c14Struct{"a", 2}, c14Struct{"a", 10}, c14Struct{"b", 0}, c14Struct{"", -1}},
		"userkey": {world.LKey{K: 1, L: 3}, world.LKey{K: 2, L: 0}, world.LKey{K: 2, L: 5}, world.LKey{K: 10, L: 1}},
	}
	rows := map[string]string{}
	for typ, xs := range sets {
		var sb strings.Builder
		for _, a := range xs {
			for _, b := range xs {
				c, err := cmp(a, b)
				if err != nil {
					return nil, fmt.Errorf("compare %s %v %v: %w", typ, a, b, err)
				}
				switch {
				case c < 0:
					sb.WriteByte('<')
				case c > 0:
					sb.WriteByte('>')
				default:
					sb.WriteByte('=')
				}
			}
		}
		rows[typ] = sb.String()
	}
	return rows, nil
}

func refCompare(a, b interface{}) (int, error) {
	switch a.(type) {
	case string:
		return world.KSString.Cmp(a, b), nil
	case int:
		return world.KSInt.Cmp(a, b), nil
	case int64:
		return world.KSInt64.Cmp(a, b), nil
	case uint:
		return world.KSUint.Cmp(a, b), nil
	case uint64:
		return world.KSUint64.Cmp(a, b), nil
	case []byte:
		return world.KSBytes.Cmp(a, b), nil
	case world.LKey:
		return world.KSLKey.Cmp(a, b), nil
	}
	return world.KSStruct.Cmp(a, b), nil
}

// c14RootConfigs: the configurations whose every version's root is frozen.
func c14RootConfigs() []*world.Config {
	B, M := ref.FormatBinary, ref.FormatMarshaler
	var cs []*world.Config
	for _, f := range []string{B, M} {
		cs = append(cs, world.UintCfg(2, urange(1, 6), 1, f, "none"))
		cs = append(cs, world.UintCfg(2, urange(1, 4), 2, f, "none"))
		cs = append(cs, world.UintCfg(3, ulist(1, 2, 3, 6, 9, 18), 1, f, "none"))
		cs = append(cs, world.UintCfg(16, ulist(1, 2, 16, 17, 32, 256), 1, f, "none"))
		cs = append(cs, world.IntCfg(2, []int{-4, -2, -1, 0, 1, 2}, []interface{}{7}, 0, f, "none"))
		cs = append(cs, world.StringCfg(2, []uint8{0, 1, 0, 2, 0}, f, "none"))
		cs = append(cs, world.BytesCfg(2, []uint8{0, 1, 0, 2}, f, "none"))
		cs = append(cs, world.StructCfg(2, []uint8{0, 1, 0, 2}, f, "none"))
		cs = append(cs, world.Uint64Cfg(2, []uint64{0, 2, 4, 1<<53 + 1, 1 << 63}, f, "none"))
		cs = append(cs, world.Int32Cfg(2, []int32{-2, 9, 10, 100, 4, 16}, f, "none"))
		cs = append(cs, world.Uint8Cfg(2, []uint8{2, 10, 100, 9, 16, 200}, f, "none"))
		cs = append(cs, world.IntCfg(4, []int{1, 2, 4, 8, 16}, []interface{}{world.SVal{Asdf: "a", Q: true}}, world.SVal{}, f, "none"))
		if f == B {
			// nil values (ValuesLike=nil, registered types): the element body is the marshaler's output for nil
			nv := world.IntCfg(2, []int{1, 2, 3, 4, 8}, []interface{}{nil}, nil, f, "none")
			nv.RegisteredTypes = true
			cs = append(cs, nv)
			cs = append(cs, world.IntCfg(2, []int{1, 2, 3, 4}, []interface{}{[]int{}, []int{1, 2}}, []int{}, f, "none"))
			cs = append(cs, world.IntCfg(4, []int{1, 2, 4, 8}, []interface{}{"", "x"}, "", f, "none"))
		}
		// every link pattern of small top nodes: all layer assignments (0..2) of 4 user keys
		for _, l := range allLayerAssignments(4, 2) {
			cs = append(cs, world.LKeyCfg(2, l, 1, f, "none"))
		}
	}
	return cs
}

// c14ExtraTrees: single larger trees whose roots are frozen too: framing of long bodies (> 127
// bytes: two-byte uvarint lengths) and of nodes with more than 127 entries, the default branch factor.
func c14ExtraTrees() map[string]*world.Config {
	out := map[string]*world.Config{}
	long := strings.Repeat("0123456789", 30)
	for _, f := range []string{ref.FormatBinary, ref.FormatMarshaler} {
		sf := shortFmtName(f)
		out["130-entries-in-one-node-bf256/"+sf] = world.UintCfg(256, urange(1, 130), 1, f, "none")
		out["300-byte-values/"+sf] = world.IntCfg(4, []int{1, 2, 3, 4, 5, 6}, []interface{}{long}, "", f, "none")
		lk := world.StringCfg(2, []uint8{0, 1, 0}, f, "none")
		for i := range lk.Keys {
			lk.Keys[i] = lk.Keys[i].(string) + strings.Repeat("k", 200)
		}
		lk.Keys = sortKeysC14(lk)
		out["200-byte-keys/"+sf] = lk
		out["40-keys-default-bf16/"+sf] = world.UintCfg(16, urange(1, 40), 1, f, "none")
		if f == ref.FormatBinary {
			// struct keys under a configured marshaler that does not write JSON for them, KeyCompare left nil: their
			// order, their layers and so the whole tree are defined by that marshaler's bytes. Frozen vector only
			// (the independent encoder knows JSON keys).
			ak := world.StructCfg(4, []uint8{0, 1, 0, 0, 1, 0, 0, 0}, f, "none")
			ak.AltKeyMarshal = true
			ak.KS = world.KSStructAlt
			ak.Keys = sortKeysC14(ak)
			out[goldenOnly+"struct-keys-under-a-non-JSON-key-marshaler/"+sf] = ak
		}
		// the library's default marshaler (RemoteConfig.Marshal left nil) on characters that encoding/json
		// escapes (<, >, &, U+2028): string values, string keys and struct keys (their layer and order too)
		hv := world.IntCfg(4, []int{1, 2, 3, 4, 5}, []interface{}{"a&b<c>d\u2028e"}, "", f, "none")
		hv.DefaultMarshal = true
		out["default-marshaler-html-characters-in-values/"+sf] = hv
		hk := world.StringCfg(2, []uint8{0, 1, 0, 0}, f, "none")
		for i := range hk.Keys {
			hk.Keys[i] = hk.Keys[i].(string) + []string{"&", "<x>", "a&&b", "\u2028"}[i%4]
		}
		hk.Keys = sortKeysC14(hk)
		hk.DefaultMarshal = true
		out["default-marshaler-html-characters-in-string-keys/"+sf] = hk
		hs := world.StructCfg(2, []uint8{0, 1, 0, 2, 0, 0}, f, "none")
		for i := range hs.Keys {
			k := hs.Keys[i].(world.SKey)
			k.A = []string{"<", "&", ">", "a&b"}[i%4] + k.A
			hs.Keys[i] = k
		}
		hs.Keys = sortKeysC14(hs)
		hs.DefaultMarshal = true
		out["default-marshaler-html-characters-in-struct-keys/"+sf] = hs
		// lengths at the one-byte / two-byte / three-byte uvarint boundaries: element bodies of exactly
		// 127, 128, 129 and 16383, 16384, 16385 bytes (a JSON string of n characters is n+2 bytes), string
		// keys of those body lengths, and single nodes holding exactly 127, 128 and 129 entries
		for _, n := range []int{127, 128, 129, 16383, 16384, 16385} {
			out[fmt.Sprintf("value-bodies-of-%d-bytes/%s", n, sf)] = world.IntCfg(4, []int{1, 2, 3, 4, 5}, []interface{}{strings.Repeat("v", n-2)}, "", f, "none")
		}
		for _, n := range []int{127, 128, 129} {
			lk := world.StringCfg(2, []uint8{0, 1, 0}, f, "none")
			for i := range lk.Keys {
				k := lk.Keys[i].(string)
				lk.Keys[i] = k + strings.Repeat("k", n-2-len(k))
			}
			lk.Keys = sortKeysC14(lk)
			out[fmt.Sprintf("key-bodies-of-%d-bytes/%s", n, sf)] = lk
			out[fmt.Sprintf("%d-entries-in-one-node-bf256/%s", n, sf)] = world.UintCfg(256, urange(1, uint(n)), 1, f, "none")
		}
	}
	return out
}

const goldenOnly = "frozen-vector-only:"

func sortKeysC14(c *world.Config) []interface{} {
	ks := append([]interface{}{}, c.Keys...)
	sort.Slice(ks, func(i, j int) bool { return c.KS.Cmp(ks[i], ks[j]) < 0 })
	return ks
}

// c14ExtraRoots builds each extra tree (all keys, first value) and returns name -> "link height size".
func c14ExtraRoots(storeCheck func(cfg *world.Config, name string, b []byte)) (map[string]string, error) {
	out := map[string]string{}
	for name, cfg := range c14ExtraTrees() {
		w, err := world.New(cfg)
		if err != nil {
			return nil, err
		}
		failed := false
		for k := range cfg.Keys {
			if r := w.Apply(world.Op{Kind: world.OpIns, K: (k*7 + 3) % len(cfg.Keys), V: 0}); r.Err != nil || r.Panic != nil {
				// the code under test failed on a healthy store: recorded as this tree's outcome (it then differs from the vector)
				out[name] = "insert failed: " + report.Norm(fmt.Sprint(r))
				failed = true
				break
			}
		}
		if failed {
			continue
		}
		for k := range cfg.Keys { // any key the permutation missed
			if _, ok := w.Model[0][k]; !ok {
				w.Apply(world.Op{Kind: world.OpIns, K: k, V: 0})
			}
		}
		r := w.Apply(world.Op{Kind: world.OpReload})
		if r.Err != nil || r.Panic != nil {
			out[name] = "persist+load failed: " + report.Norm(fmt.Sprint(r))
			for _, n := range w.Store.Names() {
				b, _ := w.Store.Has(n)
				storeCheck(cfg, n, b)
			}
			continue
		}
		for _, n := range w.Store.Names() {
			b, _ := w.Store.Has(n)
			storeCheck(cfg, n, b)
		}
		out[name] = fmt.Sprintf("%s %d %d", linkOf(r.Root), r.Root.Height, r.Root.Size)
	}
	return out, nil
}

type c14Golden struct {
	Extra  map[string]string            `json:"extra_trees"`
	Note   string                       `json:"note"`
	Roots  map[string]map[string]string `json:"roots"`  // config -> contents -> "link height size"
	Layers map[string]string            `json:"layers"` // type/bf -> digits
	Order  map[string]string            `json:"order"`
	Consts map[string]string            `json:"consts"`
	// configurations whose trees could not be built on a healthy store (never part of the frozen file)
	Failures map[string]string `json:"-"`
}

func c14Consts() map[string]string {
	r := mast.NewRoot(nil)
	m := mast.NewInMemory()
	link := "nil"
	if r.Link != nil {
		link = *r.Link
	}
	desc := func(r *mast.Root) string {
		l := "nil"
		if r.Link != nil {
			l = *r.Link
		}
		return fmt.Sprintf("link=%s size=%d height=%d bf=%d format=%s", l, r.Size, r.Height, r.BranchFactor, r.NodeFormat)
	}
	// what a tree created with partly filled options writes for the entries {1,2,3}: must not depend on how
	// the defaults were reached
	rootOf := func(o *mast.CreateRemoteOptions) string {
		st := env.NewStore("mem://consts")
		m, err := mast.NewRoot(o).LoadMast(ctx, &mast.RemoteConfig{KeysLike: 0, ValuesLike: "", StoreImmutablePartsWith: st})
		if err != nil {
			return "LoadMast: " + err.Error()
		}
		for _, k := range []int{1, 2, 3} {
			if err := m.Insert(ctx, k, "a"); err != nil {
				return "Insert: " + err.Error()
			}
		}
		r, err := m.MakeRoot(ctx)
		if err != nil {
			return "MakeRoot: " + err.Error()
		}
		return desc(r)
	}
	return map[string]string{
		"NewRoot(&{})":                                   desc(mast.NewRoot(&mast.CreateRemoteOptions{})),
		"NewRoot(&{BranchFactor:4})":                     desc(mast.NewRoot(&mast.CreateRemoteOptions{BranchFactor: 4})),
		"NewRoot(&{NodeFormat:v1marshaler})":             desc(mast.NewRoot(&mast.CreateRemoteOptions{NodeFormat: mast.V1Marshaler})),
		"NewRoot(nil) again, after calls with options":   desc(mast.NewRoot(nil)),
		"tree{1,2,3} options nil":                        rootOf(nil),
		"tree{1,2,3} options {}":                         rootOf(&mast.CreateRemoteOptions{}),
		"tree{1,2,3} options {BranchFactor:16}":          rootOf(&mast.CreateRemoteOptions{BranchFactor: 16}),
		"tree{1,2,3} options {16,v1.1.5binary}":          rootOf(&mast.CreateRemoteOptions{BranchFactor: 16, NodeFormat: mast.V115Binary}),
		"NewRoot(nil)":        fmt.Sprintf("link=%s size=%d height=%d bf=%d format=%s", link, r.Size, r.Height, r.BranchFactor, r.NodeFormat),
		"NewInMemory":         fmt.Sprintf("size=%d height=%d bf=%d", m.Size(), m.Height(), m.BranchFactor()),
		"DefaultBranchFactor": fmt.Sprint(mast.DefaultBranchFactor),
		"formats":             fmt.Sprintf("%s %s", mast.V1Marshaler, mast.V115Binary),
	}
}

// c14Observe builds everything from the current implementation. storeCheck is called for every Store.
func c14Observe(storeCheck func(cfg *world.Config, name string, b []byte)) (*c14Golden, error) {
	g := &c14Golden{Roots: map[string]map[string]string{}}
	cfgs := c14RootConfigs()
	var mu sync.Mutex
	var firstErr error
	for _, cfg := range cfgs {
		atomic.AddInt64(&c14FailedCalls, int64(c14FailedEncodes(cfg.Format)))
		vs, err := allVersionsLogged(cfg, func(c env.Call) { storeCheck(cfg, c.Name, c.Bytes) })
		if err != nil {
			// the code under test failed on a healthy store: that is this configuration's outcome (its vectors are then missing)
			if g.Failures == nil {
				g.Failures = map[string]string{}
			}
			g.Failures[cfg.Name] = err.Error()
			g.Roots[cfg.Name] = map[string]string{}
			continue
		}
		m := map[string]string{}
		for _, v := range vs {
			m[v.c.String()] = fmt.Sprintf("%s %d %d", v.link, v.root.Height, v.root.Size)
		}
		mu.Lock()
		g.Roots[cfg.Name] = m
		mu.Unlock()
	}
	if firstErr != nil {
		return nil, firstErr
	}
	var err error
	if g.Layers, err = layerRows(mast.DefaultLayer(json.Marshal)); err != nil {
		return nil, err
	}
	if g.Order, err = orderRows(mast.DefaultKeyCompare(json.Marshal)); err != nil {
		return nil, err
	}
	g.Consts = c14Consts()
	if g.Extra, err = c14ExtraRoots(storeCheck); err != nil {
		return nil, err
	}
	return g, nil
}

// allVersionsLogged is allVersions with every Store call passed to f.
func allVersionsLogged(cfg *world.Config, f func(env.Call)) ([]*version, error) {
	c14StoreHook.Store(cfg.Name, f)
	defer c14StoreHook.Delete(cfg.Name)
	return allVersions(cfg)
}

var c14StoreHook sync.Map

func goldenPath() string { return filepath.Join(report.HomeDir, "golden", "c14.json") }

// C14Gen writes the golden file (manual step, never run by a check).
func C14Gen() int {
	g, err := c14Observe(func(*world.Config, string, []byte) {})
	if err != nil {
		fmt.Println(err)
		return 2
	}
	g.Note = "frozen reference vectors for property C14; generated once from the pinned tree by `mc c14-gen` and cross-checked against the independent re-implementation; never regenerated by a check"
	os.MkdirAll(filepath.Dir(goldenPath()), 0o755)
	b, _ := json.MarshalIndent(g, "", " ")
	if err := os.WriteFile(goldenPath(), b, 0o644); err != nil {
		fmt.Println(err)
		return 2
	}
	fmt.Printf("wrote %s: %d configurations, %d layer rows\n", goldenPath(), len(g.Roots), len(g.Layers))
	return 0
}

// c14FailedEncodes: before anything is compared, a series of MakeRoot calls fail half-way in this
// process - each of the first Marshal calls of a flush in turn, each class of Store calls - on small
// trees of both formats. The frozen format is a function of the entries alone: what an earlier,
// failed call did must not show in any byte written afterwards.
// They are repeated in front of every configuration whose vectors are computed, in that
// configuration's format, and the last of them are always calls that did fail (a later successful
// call would hide what an earlier failed one left behind).
func c14FailedEncodes(f string) (n int) {
	for _, keys := range [][]interface{}{ulist(1, 2, 3, 4, 5), ulist(1, 2, 3), ulist(1)} {
		cfg := world.UintCfg(2, keys, 1, f, "none")
		for _, v := range []int{0, 1, 2, 17, 16, 15, 14, 13, 12, 11, 10} {
			w, err := world.New(cfg)
			if err != nil {
				continue
			}
			for k := range cfg.Keys {
				w.Apply(world.Op{Kind: world.OpIns, K: k, V: 0})
			}
			if r := w.Apply(world.Op{Kind: world.OpPersistFail, V: v}); r.Err != nil {
				n++
			}
		}
	}
	return n
}

var c14FailedCalls int64

func C14(run *report.Run) {
	cfgAll := &world.Config{Name: "format"}
	acc := &pairAcc{}
	var stores, evals int64
	var mu sync.Mutex
	obs, err := c14Observe(func(cfg *world.Config, name string, b []byte) {
		mu.Lock()
		stores++
		mu.Unlock()
		if n := ref.Name(b); n != name {
			acc.add(cfg, "C14", []explore.Finding{{Sig: "C14|node-name-is-not-blake2b-256-base64url", What: "a node name is not the unpadded URL-safe base64 of BLAKE2b-256 of its bytes", Detail: name + " vs " + n}}, []string{cfg.Name})
		}
	})
	if err != nil {
		run.HarnessError("observe: %v", err)
		return
	}
	run.Extra["failed_MakeRoot_calls_interleaved_with_the_computation_of_the_vectors"] = atomic.LoadInt64(&c14FailedCalls)
	for name, e := range obs.Failures {
		acc.add(cfgAll, "C14", []explore.Finding{{Sig: "C14|trees-cannot-be-written-and-read-back|" + fmtOfName(name), What: "building, persisting and re-loading the small trees of a configuration failed on a healthy store (what was written is not the frozen format)", Detail: name + ": " + e}}, []string{name})
	}
	// (1) implementation vs independent re-implementation
	for _, cfg := range c14RootConfigs() {
		codec := codecFor(cfg)
		for cs, got := range obs.Roots[cfg.Name] {
			evals++
			c := parseContents(cs)
			es := entriesOf(cfg, c)
			H := ref.CanonHeight(cfg.KS, es, cfg.BF)
			want, err := codec.Encode(ref.BuildCanon(cfg.KS, es, cfg.BF, H), nil)
			if err != nil {
				run.HarnessError("ref encode: %v", err)
				continue
			}
			if w := fmt.Sprintf("%s %d %d", want, H, len(es)); w != got {
				acc.add(cfg, "C14", []explore.Finding{{Sig: "C14|root-differs-from-independent-encoder|" + shortFmtName(cfg.Format), What: "the root written for given entries differs from the independently re-implemented format (bytes, hash input, layers or height rule changed)", Detail: fmt.Sprintf("contents %s: implementation %q, reference %q", cs, got, w)}}, []string{cfg.Name, cs})
			}
		}
	}
	for name, cfg := range c14ExtraTrees() {
		if strings.HasPrefix(name, goldenOnly) {
			continue
		}
		evals++
		var es []ref.Entry
		for _, k := range cfg.Keys {
			es = append(es, ref.Entry{K: k, V: cfg.Vals[0]})
		}
		ref.SortEntries(cfg.KS, es)
		H := ref.CanonHeight(cfg.KS, es, cfg.BF)
		want, err := codecFor(cfg).Encode(ref.BuildCanon(cfg.KS, es, cfg.BF, H), nil)
		if err != nil {
			run.HarnessError("ref encode %s: %v", name, err)
			continue
		}
		if w := fmt.Sprintf("%s %d %d", want, H, len(es)); w != obs.Extra[name] {
			acc.add(cfg, "C14", []explore.Finding{{Sig: "C14|root-differs-from-independent-encoder|" + shortFmtName(cfg.Format) + "|" + name[:strings.Index(name, "/")], What: "the root written for a larger tree differs from the independently re-implemented format", Detail: fmt.Sprintf("%s: implementation %q, reference %q", name, obs.Extra[name], w)}}, []string{name})
		}
	}
	refL, _ := layerRows(refLayer)
	for k, row := range obs.Layers {
		evals += int64(len(row))
		if refL[k] != row {
			acc.add(cfgAll, "C14", []explore.Finding{{Sig: "C14|layer-differs-from-definition|" + k[:strings.Index(k, "/")], What: "DefaultLayer differs from the definition (trailing base-bf zero digits of the integer / of CRC-64-ECMA of the bytes)", Detail: fmt.Sprintf("%s: first difference at input #%d", k, firstDiff(refL[k], row))}}, []string{k})
		}
	}
	refO, _ := orderRows(refCompare)
	for k, row := range obs.Order {
		evals += int64(len(row))
		if refO[k] != row {
			acc.add(cfgAll, "C14", []explore.Finding{{Sig: "C14|order-differs-from-definition|" + k, What: "DefaultKeyCompare differs from the natural order of the key type", Detail: fmt.Sprintf("%s: %s vs %s", k, row, refO[k])}}, []string{k})
		}
	}
	wantConsts := map[string]string{"NewRoot(nil)": "link=nil size=0 height=0 bf=16 format=v1.1.5binary", "NewInMemory": "size=0 height=0 bf=16", "DefaultBranchFactor": "16", "formats": "v1marshaler v1.1.5binary"}
	dflt := "link=nil size=0 height=0 bf=16 format=v1.1.5binary"
	wantConsts["NewRoot(&{})"] = dflt
	wantConsts["NewRoot(nil) again, after calls with options"] = dflt
	wantConsts["NewRoot(&{BranchFactor:4})"] = "link=nil size=0 height=0 bf=4 format=v1.1.5binary"
	wantConsts["NewRoot(&{NodeFormat:v1marshaler})"] = "link=nil size=0 height=0 bf=16 format=v1marshaler"
	for _, k := range []string{"tree{1,2,3} options {}", "tree{1,2,3} options {BranchFactor:16}", "tree{1,2,3} options {16,v1.1.5binary}"} {
		wantConsts[k] = obs.Consts["tree{1,2,3} options nil"]
	}
	if es := []ref.Entry{{K: 1, V: "a"}, {K: 2, V: "a"}, {K: 3, V: "a"}}; true {
		if want, err := (&ref.Codec{Format: ref.FormatBinary}).Encode(ref.BuildCanon(world.KSInt, es, 16, 0), nil); err == nil {
			wantConsts["tree{1,2,3} options nil"] = fmt.Sprintf("link=%s size=3 height=0 bf=16 format=v1.1.5binary", want)
		}
	}
	for k, w := range wantConsts {
		evals++
		if obs.Consts[k] != w {
			acc.add(cfgAll, "C14", []explore.Finding{{Sig: "C14|defaults|" + report.Norm(k), What: "the defaults of a new tree changed", Detail: fmt.Sprintf("%s: %q want %q", k, obs.Consts[k], w)}}, []string{k})
		}
	}
	// (2) implementation vs frozen golden vectors
	gb, err := os.ReadFile(goldenPath())
	if err != nil {
		run.HarnessError("golden vectors missing: %v", err)
	} else {
		var g c14Golden
		if err := json.Unmarshal(gb, &g); err != nil {
			run.HarnessError("golden vectors unreadable: %v", err)
		}
		nroots := 0
		for cfgName, m := range g.Roots {
			for cs, want := range m {
				nroots++
				if got, ok := obs.Roots[cfgName][cs]; !ok || got != want {
					acc.add(cfgAll, "C14", []explore.Finding{{Sig: "C14|root-differs-from-golden-vector|" + fmtOfName(cfgName), What: "the root written for given entries differs from the frozen reference vector", Detail: fmt.Sprintf("%s %s: now %q, frozen %q", cfgName, cs, got, want)}}, []string{cfgName, cs})
				}
			}
		}
		for name, want := range g.Extra {
			if obs.Extra[name] != want {
				acc.add(cfgAll, "C14", []explore.Finding{{Sig: "C14|root-differs-from-golden-vector|" + name, What: "the root written for a larger tree differs from the frozen reference vector", Detail: fmt.Sprintf("%s: now %q, frozen %q", name, obs.Extra[name], want)}}, []string{name})
			}
		}
		for k, want := range g.Layers {
			if obs.Layers[k] != want {
				acc.add(cfgAll, "C14", []explore.Finding{{Sig: "C14|layer-differs-from-golden-vector|" + k[:strings.Index(k, "/")], What: "DefaultLayer differs from the frozen layer table", Detail: fmt.Sprintf("%s: first difference at input #%d", k, firstDiff(want, obs.Layers[k]))}}, []string{k})
			}
		}
		for k, want := range g.Order {
			if obs.Order[k] != want {
				acc.add(cfgAll, "C14", []explore.Finding{{Sig: "C14|order-differs-from-golden-vector|" + k, What: "DefaultKeyCompare differs from the frozen order table", Detail: k}}, []string{k})
			}
		}
		for k, want := range g.Consts {
			if obs.Consts[k] != want {
				acc.add(cfgAll, "C14", []explore.Finding{{Sig: "C14|defaults-differ-from-golden|" + report.Norm(k), What: "defaults differ from the frozen vector", Detail: fmt.Sprintf("%q vs %q", obs.Consts[k], want)}}, []string{k})
			}
		}
		run.Extra["golden_roots_compared"] = nroots
		run.Extra["golden_layer_rows_compared"] = len(g.Layers)
	}
	run.Evals = evals
	c14Legacy(run, acc)
	acc.flush(run)
	run.Distinct = run.Evals
	run.Extra["store_calls_hashed_independently"] = stores
	keys := make([]string, 0, len(obs.Layers))
	for k := range obs.Layers {
		keys = append(keys, k)
	}
	sort.Strings(keys)
	run.AddSample(map[string]interface{}{"roots": "every version (subset of keys) of 50+ configurations incl. all 81 layer assignments of 4 user keys in both formats: Root link/height/size", "layer_row_example": keys[0] + " -> " + obs.Layers[keys[0]][:60] + "...",
		"order": "all pairs of 4-12 element sets per built-in key type", "consts": obs.Consts})
	run.Rule = "exhaustive enumeration of nodes (all link patterns of small top nodes via user keys), of layer inputs (integers -300..300, powers/multiples of bf up to 2^63, 500 strings) x 19 branch factors x 14 key types, of key pairs; three-way comparison implementation / independent re-implementation / frozen golden vectors"
}

func fmtOfName(cfgName string) string {
	if strings.Contains(cfgName, "/msh/") {
		return "marshaler"
	}
	return "binary"
}

func firstDiff(a, b string) int {
	for i := 0; i < len(a) && i < len(b); i++ {
		if a[i] != b[i] {
			return i
		}
	}
	return minInt(len(a), len(b))
}

func shortFmtName(f string) string {
	if f == ref.FormatBinary {
		return "binary"
	}
	return "marshaler"
}

// parseContents parses Contents.String() back ("{k0=v0 k2=v1}#2").
func parseContents(s string) world.Contents {
	c := world.Contents{M: map[int]int{}}
	body := s[1:strings.Index(s, "}")]
	for _, f := range strings.Fields(body) {
		var k, v int
		fmt.Sscanf(f, "k%d=v%d", &k, &v)
		c.M[k] = v
	}
	c.Size = uint64(len(c.M))
	return c
}
