package checks

import (
	"bytes"
	"errors"
	"fmt"
	"io"
	"os"
	"path/filepath"
	"strings"
	"sync"
	"sync/atomic"

	"github.com/aws/aws-sdk-go/aws"
	"github.com/aws/aws-sdk-go/aws/awserr"
	"github.com/aws/aws-sdk-go/aws/request"
	"github.com/aws/aws-sdk-go/service/s3"
	"github.com/jrhy/mast"
	"github.com/jrhy/mast/persist/file"
	masts3 "github.com/jrhy/mast/persist/s3"
	"verifharness/explore"
	"verifharness/report"
	"verifharness/world"
)

// fakeS3 is an in-process S3Interface: records every request, can fail the i-th
// call and can hand out a body that fails mid-read.
type fakeS3 struct {
	mu       sync.Mutex
	objects  map[string][]byte // bucket + "\x00" + key
	calls    []string          // "PUT bucket key" / "GET bucket key"
	n        int
	failAt   map[int]bool
	bodyFail map[int]bool // the GET with this call index returns a body that errors after half the bytes
	gate     func(kind string)
	// withLen: GET responses carry ContentLength (and ETag) the way the real service does; without it
	// only Body is filled in (what a chunked / transforming endpoint or a minimal S3Interface hands back)
	withLen bool
	// putCode: the PUT with this call index reads its whole body (the request went out) and then fails with
	// this AWS error code - a throttled or timed-out request, as the SDK reports it; putCodeFrom/putCodeAll:
	// every PUT from that call index on fails that way
	putCode     map[int]string
	putCodeFrom int
	putCodeAll  string
}

var errFakeS3 = errors.New("verif: injected S3 error")

func newFakeS3() *fakeS3 { return &fakeS3{objects: map[string][]byte{}} }

func (f *fakeS3) tick(kind, bucket, key string) (int, bool) {
	if f.gate != nil {
		f.gate(kind)
	}
	f.mu.Lock()
	defer f.mu.Unlock()
	i := f.n
	f.n++
	f.calls = append(f.calls, kind+" "+bucket+" "+key)
	return i, f.failAt[i]
}

func (f *fakeS3) DeleteObjectWithContext(ctx aws.Context, in *s3.DeleteObjectInput, opts ...request.Option) (*s3.DeleteObjectOutput, error) {
	_, fail := f.tick("DELETE", aws.StringValue(in.Bucket), aws.StringValue(in.Key))
	if fail {
		return nil, errFakeS3
	}
	f.mu.Lock()
	delete(f.objects, aws.StringValue(in.Bucket)+"\x00"+aws.StringValue(in.Key))
	f.mu.Unlock()
	return &s3.DeleteObjectOutput{}, nil
}

type failingReader struct {
	data []byte
	pos  int
}

func (r *failingReader) Read(p []byte) (int, error) {
	half := len(r.data) / 2
	if r.pos >= half {
		return 0, errFakeS3
	}
	n := copy(p, r.data[r.pos:half])
	r.pos += n
	return n, nil
}
func (r *failingReader) Close() error { return nil }

func (f *fakeS3) GetObjectWithContext(ctx aws.Context, in *s3.GetObjectInput, opts ...request.Option) (*s3.GetObjectOutput, error) {
	i, fail := f.tick("GET", aws.StringValue(in.Bucket), aws.StringValue(in.Key))
	if fail {
		return nil, errFakeS3
	}
	f.mu.Lock()
	b, ok := f.objects[aws.StringValue(in.Bucket)+"\x00"+aws.StringValue(in.Key)]
	bf := f.bodyFail[i]
	f.mu.Unlock()
	if !ok {
		// what the SDK hands back for a 404 on GetObject
		return nil, awserr.NewRequestFailure(awserr.New(s3.ErrCodeNoSuchKey, "The specified key does not exist.", nil), 404, "verif-request")
	}
	if bf {
		if f.withLen {
			return &s3.GetObjectOutput{Body: &failingReader{data: b}, ContentLength: aws.Int64(int64(len(b)))}, nil
		}
		return &s3.GetObjectOutput{Body: &failingReader{data: b}}, nil
	}
	if f.withLen {
		return &s3.GetObjectOutput{Body: io.NopCloser(bytes.NewReader(b)), ContentLength: aws.Int64(int64(len(b))), ETag: aws.String("\"verif\"")}, nil
	}
	return &s3.GetObjectOutput{Body: io.NopCloser(bytes.NewReader(b))}, nil
}

func (f *fakeS3) PutObjectWithContext(ctx aws.Context, in *s3.PutObjectInput, opts ...request.Option) (*s3.PutObjectOutput, error) {
	i, fail := f.tick("PUT", aws.StringValue(in.Bucket), aws.StringValue(in.Key))
	if fail {
		return nil, errFakeS3
	}
	b, err := io.ReadAll(in.Body)
	if err != nil {
		return nil, err
	}
	f.mu.Lock()
	code := f.putCode[i]
	if f.putCodeAll != "" && i >= f.putCodeFrom {
		code = f.putCodeAll
	}
	f.mu.Unlock()
	if code != "" {
		return nil, awserr.NewRequestFailure(awserr.New(code, "verif: injected S3 failure after the body was sent", nil), 503, "verif-request")
	}
	f.mu.Lock()
	f.objects[aws.StringValue(in.Bucket)+"\x00"+aws.StringValue(in.Key)] = b
	f.mu.Unlock()
	return &s3.PutObjectOutput{}, nil
}

type backend struct {
	name   string
	mk     func() (mast.Persist, *fakeS3, func())
	bucket string
	prefix string
}

func c18Backends(tmpBase string) []backend {
	var bs []backend
	bs = append(bs, backend{name: "in-memory", mk: func() (mast.Persist, *fakeS3, func()) { return mast.NewInMemoryStore(), nil, func() {} }})
	bs = append(bs, backend{name: "file", mk: func() (mast.Persist, *fakeS3, func()) {
		d, _ := os.MkdirTemp(tmpBase, "f")
		return file.NewPersistForPath(d), nil, func() { os.RemoveAll(d) }
	}})
	for i, bp := range [][2]string{{"bucket-a", ""}, {"bucket-b", "pre/fix-"}, {"b", "x/"}, {"bucket-a", "len/"}} {
		bp := bp
		withLen := i%2 == 1
		nm := "s3(" + bp[0] + "," + bp[1] + ")"
		if withLen {
			nm += "+Content-Length"
		}
		bs = append(bs, backend{name: nm, bucket: bp[0], prefix: bp[1], mk: func() (mast.Persist, *fakeS3, func()) {
			f := newFakeS3()
			f.withLen = withLen
			p := masts3.NewPersist(f, "http://endpoint", bp[0], bp[1])
			return &p, f, func() {}
		}})
	}
	return bs
}

func c18Names() []string {
	alpha := []string{"A", "z", "0", "-", "_"}
	var ns []string
	for _, a := range alpha {
		ns = append(ns, a)
	}
	for _, a := range alpha {
		for _, b := range alpha {
			ns = append(ns, a+b)
		}
	}
	ns = append(ns, "qynm3BZ1XQBx66NJ69oiXRXk-RDLR0VJxH6Vy4XsxNY")
	return ns
}

func c18Payloads(thorough bool) map[string][]byte {
	all := make([]byte, 256)
	for i := range all {
		all[i] = byte(i)
	}
	big := make([]byte, 1<<20)
	for i := range big {
		big[i] = byte(i * 7)
	}
	// well beyond any round buffer size: 4 MiB + 1 and 9 MiB (on two names per backend)
	huge := make([]byte, 9<<20)
	for i := range huge {
		huge[i] = byte(i*13 + i>>11)
	}
	return map[string][]byte{"empty": {}, "00": {0}, "ffffff": {0xff, 0xff, 0xff}, "all256": all, "1MiB": big, "4MiB+1": huge[:4<<20+1], "9MiB": huge}
}

type c18Stats struct{ evals, faults int64 }

func C18(run *report.Run) {
	tmpBase, err := os.MkdirTemp("", "verif-c18-")
	if err != nil {
		run.HarnessError("tempdir: %v", err)
		return
	}
	defer os.RemoveAll(tmpBase)
	acc := &pairAcc{}
	st := &c18Stats{}
	cfg := &world.Config{Name: "backends"}
	names := c18Names()
	payloads := c18Payloads(run.Thorough())
	pnames := []string{"empty", "00", "ffffff", "all256", "1MiB", "4MiB+1", "9MiB"}
	report1 := func(b backend, sig, what, detail string, desc ...string) {
		acc.add(cfg, "C18", []explore.Finding{{Sig: "C18|" + b.name[:minInt(len(b.name), 2)] + "|" + sig, What: b.name + ": " + what, Detail: detail}}, append([]string{"backend " + b.name}, desc...))
	}
	for _, b := range c18Backends(tmpBase) {
		b := b
		parallelFor(len(names), func(ni int) {
			name := names[ni]
			for _, pn := range pnames {
				if pn == "1MiB" && ni%8 != 0 {
					continue // the large payload on a spread of names (reported)
				}
				if (pn == "4MiB+1" || pn == "9MiB") && ni != 0 && ni != len(names)-1 {
					continue // the very large payloads on the first and the last name
				}
				payload := payloads[pn]
				p, fs, cleanup := b.mk()
				atomic.AddInt64(&st.evals, 1)
				desc := fmt.Sprintf("name %q payload %s", name, pn)
				// load of a never-written name
				if got, err := p.Load(ctx, name); err == nil {
					report1(b, "missing-name-loads-without-error", "loading a name never written returned data instead of an error", fmt.Sprintf("%d bytes", len(got)), desc)
				}
				// store -> load
				if err := p.Store(ctx, name, payload); err != nil {
					report1(b, "store-failed|"+report.Norm(err.Error()), "Store failed on a healthy backend", err.Error(), desc)
					cleanup()
					continue
				}
				got, err := p.Load(ctx, name)
				if err != nil || !bytes.Equal(got, payload) {
					report1(b, "roundtrip|payload="+pn, "a successful Store is not loadable with exactly the stored bytes", fmt.Sprintf("err %v, got %d bytes want %d", err, len(got), len(payload)), desc)
				}
				// store twice
				if err := p.Store(ctx, name, payload); err != nil {
					report1(b, "second-store-failed", "storing the same name and bytes again failed", err.Error(), desc)
				}
				got, err = p.Load(ctx, name)
				if err != nil || !bytes.Equal(got, payload) {
					report1(b, "roundtrip-after-second-store|payload="+pn, "after storing the same bytes twice the name is not loadable with those bytes", fmt.Sprintf("err %v", err), desc)
				}
				// a second name does not disturb the first; another never-written name still fails
				other := name + "x"
				op := append([]byte("other:"), payload...)
				if err := p.Store(ctx, other, op); err == nil {
					g1, e1 := p.Load(ctx, name)
					g2, e2 := p.Load(ctx, other)
					if e1 != nil || e2 != nil || !bytes.Equal(g1, payload) || !bytes.Equal(g2, op) {
						report1(b, "two-names-interfere", "two names do not keep their own bytes", fmt.Sprintf("%v %v", e1, e2), desc)
					}
				}
				if _, err := p.Load(ctx, name+"y"); err == nil {
					report1(b, "missing-name-loads-without-error", "loading a name never written returned data instead of an error", "", desc)
				}
				if fs != nil {
					// exact object addressing
					want := []string{"GET " + b.bucket + " " + b.prefix + name, "PUT " + b.bucket + " " + b.prefix + name, "GET " + b.bucket + " " + b.prefix + name, "PUT " + b.bucket + " " + b.prefix + name, "GET " + b.bucket + " " + b.prefix + name,
						"PUT " + b.bucket + " " + b.prefix + other, "GET " + b.bucket + " " + b.prefix + name, "GET " + b.bucket + " " + b.prefix + other, "GET " + b.bucket + " " + b.prefix + name + "y"}
					if fmt.Sprint(fs.calls) != fmt.Sprint(want) {
						report1(b, "s3-object-addressing", "the S3 backend did not read/write exactly prefix+name in the configured bucket", fmt.Sprintf("saw %v want %v", fs.calls, want), desc)
					}
					for k := range fs.objects {
						if k != b.bucket+"\x00"+b.prefix+name && k != b.bucket+"\x00"+b.prefix+other {
							report1(b, "s3-object-addressing", "an object was written outside bucket/prefix+name", k, desc)
						}
					}
				}
				cleanup()
			}
		})
		// fault enumeration for the S3 backend: an error at each client call, and a body failing mid-read
		if b.bucket != "" {
			for _, name := range []string{"A", "qynm3BZ1XQBx66NJ69oiXRXk-RDLR0VJxH6Vy4XsxNY"} {
				for _, pn := range []string{"empty", "all256"} {
					payload := payloads[pn]
					seq := func(p mast.Persist) []error {
						var errs []error
						errs = append(errs, p.Store(ctx, name, payload))
						_, e := p.Load(ctx, name)
						errs = append(errs, e)
						errs = append(errs, p.Store(ctx, name, payload))
						_, e = p.Load(ctx, name)
						errs = append(errs, e)
						return errs
					}
					for i := 0; i < 4; i++ {
						for _, body := range []bool{false, true} {
							p, fs, _ := b.mk()
							if body {
								if i%2 == 0 || len(payload) == 0 {
									continue // call i is a PUT, or nothing to cut
								}
								fs.bodyFail = map[int]bool{i: true}
							} else {
								fs.failAt = map[int]bool{i: true}
							}
							atomic.AddInt64(&st.faults, 1)
							errs := seq(p)
							// expected outcome of every step under this one fault (a tiny model: the object exists once a PUT succeeded)
							present := false
							for j, e := range errs {
								wantErr := j == i
								if j%2 == 0 { // Store
									if !wantErr {
										present = true
									}
								} else if !present { // Load of a name that was never stored successfully
									wantErr = true
								}
								if wantErr != (e != nil) {
									kind := "client-error"
									if body {
										kind = "body-read-error"
									}
									report1(b, "s3-error-propagation|"+kind, "a backend error was not returned to the caller (or a healthy call failed)", fmt.Sprintf("fault at call %d (%s): results %v", i, kind, errs), fmt.Sprintf("name %q payload %s", name, pn))
									break
								}
							}
						}
					}
				}
			}
		}
	}
	// S3 backend: a PUT that fails *after its body went out*, with the error codes the SDK reports for throttled
	// and timed-out requests (and one that is not transient), once, twice, three times in a row, and for good.
	// A backend may retry; what it may not do is report success for a node that cannot be read back: a Store
	// that returns nil makes the name load with exactly the bytes, and while every PUT fails Store returns an error.
	for _, b := range c18Backends(tmpBase) {
		if b.bucket == "" {
			continue
		}
		for _, code := range []string{"SlowDown", "ServiceUnavailable", "InternalError", "RequestTimeout", "RequestTimeTooSkewed", "AccessDenied"} {
			for _, pn := range []string{"empty", "all256"} {
				payload := payloads[pn]
				for first := 0; first < 2; first++ { // the failing PUT is the first call, or follows a Load of the missing name
					for k := 1; k <= 4; k++ { // k failing PUTs in a row; k == 4: every PUT fails
						p, fs, cleanup := b.mk()
						name := "qynm3BZ1XQBx66NJ69oiXRXk-RDLR0VJxH6Vy4XsxNY"
						if first == 1 {
							p.Load(ctx, name)
						}
						fs.mu.Lock()
						if k == 4 {
							fs.putCodeFrom, fs.putCodeAll = fs.n, code
						} else {
							fs.putCode = map[int]string{}
							for j := 0; j < k; j++ {
								fs.putCode[fs.n+j] = code
							}
						}
						fs.mu.Unlock()
						atomic.AddInt64(&st.faults, 1)
						desc := fmt.Sprintf("name %q payload %s: %d PUT(s) in a row fail with %s after the body was read (4 = all)", name, pn, k, code)
						for attempt := 0; attempt < 5; attempt++ {
							serr := p.Store(ctx, name, payload)
							got, lerr := p.Load(ctx, name)
							if serr == nil {
								if k == 4 {
									report1(b, "s3-error-propagation|store-succeeds-while-every-PUT-fails", "Store returned nil although every PUT failed", fmt.Sprintf("attempt %d", attempt), desc)
								} else if lerr != nil || !bytes.Equal(got, payload) {
									report1(b, "s3-store-ok-but-not-loadable|after-failed-PUT", "a Store that returned nil (after a PUT failed once the body had been sent) left a name that does not load with those bytes", fmt.Sprintf("attempt %d: load err %v, %d bytes want %d", attempt, lerr, len(got), len(payload)), desc)
								}
								break
							}
							if lerr == nil && !bytes.Equal(got, payload) {
								report1(b, "s3-partial-object|after-failed-PUT", "after a failed Store the name loads with other bytes", fmt.Sprintf("attempt %d: %d bytes want %d", attempt, len(got), len(payload)), desc)
								break
							}
							if k < 4 && attempt == 4 {
								report1(b, "s3-store-never-recovers|after-failed-PUT", "Store still fails after the backend has recovered", serr.Error(), desc)
							}
						}
						if cleanup != nil {
							cleanup()
						}
					}
				}
			}
		}
	}
	// file backend: errors of the directory are returned
	{
		p := file.NewPersistForPath(tmpBase + "/does/not/exist")
		atomic.AddInt64(&st.faults, 1)
		if err := p.Store(ctx, "A", []byte("x")); err == nil {
			if _, lerr := p.Load(ctx, "A"); lerr != nil {
				acc.add(cfg, "C18", []explore.Finding{{Sig: "C18|fi|store-error-swallowed", What: "file: Store into a directory that does not exist reported success although nothing is loadable", Detail: lerr.Error()}}, []string{"backend file", "base path does not exist"})
			}
		}
	}
	// file backend in places where it cannot work: whatever the reason, a Store that reports success is loadable
	{
		notDir := filepath.Join(tmpBase, "regular-file")
		os.WriteFile(notDir, []byte("x"), 0o644)
		okDir, _ := os.MkdirTemp(tmpBase, "ok")
		noAccess, _ := os.MkdirTemp(tmpBase, "noaccess")
		os.Chmod(noAccess, 0)
		defer os.Chmod(noAccess, 0o755)
		long := strings.Repeat("A", 300)
		for _, tc := range []struct{ what, base, name string }{
			{"base path is a regular file", notDir, "A"},
			{"base path lies below a regular file", filepath.Join(notDir, "sub"), "A"},
			{"name of 300 characters (longer than a file name may be)", okDir, long},
			{"directory without any permission (judged when that stops this process)", noAccess, "A"},
		} {
			p := file.NewPersistForPath(tc.base)
			atomic.AddInt64(&st.faults, 1)
			payload := []byte("payload")
			if err := p.Store(ctx, tc.name, payload); err == nil {
				got, lerr := p.Load(ctx, tc.name)
				if lerr != nil || !bytes.Equal(got, payload) {
					acc.add(cfg, "C18", []explore.Finding{{Sig: "C18|fi|store-reports-success-where-nothing-can-be-stored", What: "file: Store reported success although the name is not loadable afterwards (an error of the file system was not returned to the caller)", Detail: fmt.Sprintf("%s: Store returned nil, Load: %v", tc.what, lerr)}}, []string{"backend file", tc.what})
				}
			}
		}
	}
	c18Bfs(run, acc, tmpBase)
	c18Schedules(run, acc)
	acc.flush(run)
	run.Evals = st.evals + st.faults
	run.Distinct = st.evals + st.faults
	run.Extra["sequences_on_healthy_backends"] = st.evals
	run.Extra["fault_sequences"] = st.faults
	run.AddSample(map[string]interface{}{"backends": []string{"in-memory", "file", "s3 via an in-process fake S3Interface (3 bucket/prefix pairs)"}, "names": "all strings of length 1-2 over {A z 0 - _} and one 43-character node name",
		"payloads": pnames, "sequence": "load never-written; store; load; store again; load; store a second name; load both; load a third never-written name", "faults": "an error at each fake-S3 call; a GET body failing mid-read; a file store whose directory does not exist"})
	run.Rule = "part A: exhaustive enumeration of backend x name x payload for a fixed call sequence, plus one execution per fault position (every case distinct by construction); part C: explicit-state BFS to closure over call histories of one backend object against a map model, successor = replay of the shortest history on a fresh backend + one call; part B: all interleavings of two Stores and a Load (engine S)"
}

func minInt(a, b int) int {
	if a < b {
		return a
	}
	return b
}
