package checks

import (
	"bytes"
	"fmt"
	"os"
	"os/exec"
	"path/filepath"
	"regexp"
	"strings"
	"sync"

	"github.com/jrhy/mast"
	"verifharness/ref"
	"verifharness/report"
	"verifharness/world"
)

// C11 (engine S): two (three) logical threads, each owning its own tree taken
// from one persisted root through one shared cache and store (or by Clone), run
// short operation sequences; all interleavings up to a preemption bound at the
// granularity of environment calls (store, cache) and of the sync operations
// inside MakeRoot. Oracle: differential - each thread observes exactly what it
// observes when it runs alone; the base root still reloads to its contents.

type tOp struct {
	Kind string // get iter ins del persist clone load
	K, V int
}

func (o tOp) String() string { return fmt.Sprintf("%s(%d,%d)", o.Kind, o.K, o.V) }

type c11Scenario struct {
	Cfg     int
	Base    []int // key indexes present in the persisted base version
	Capture string
	Seqs    [][]tOp // one per thread
	Bound   int
}

func c11Configs() []*world.Config {
	B, M := ref.FormatBinary, ref.FormatMarshaler
	return []*world.Config{
		world.UintCfg(2, urange(1, 5), 2, B, "big"),
		world.LKeyCfg(2, []uint8{0, 1, 0, 0, 2, 0, 1, 2}, 2, M, "big"),
		world.UintCfg(2, urange(1, 5), 2, B, "tiny2"),
		// struct keys: ordered and layered through the user marshaler (every marshal call is a scheduling point)
		world.StructCfg(2, []uint8{0, 1, 0, 0}, B, "big"),
		// branch factor 4: leaves with several entries whose slices have spare capacity after late inserts
		world.UintCfg(4, ulist(1, 2, 3, 4, 5, 8, 9), 2, B, "big"),
		// the custom-marshaler decoder (registered types): what it decodes into the cache is shared like any other node
		c11Tagged(),
	}
}

func c11Tagged() *world.Config {
	c := world.UintCfg(2, urange(1, 5), 2, ref.FormatMarshaler, "big")
	c.Tagged = true
	c.Name = "tagged/" + c.Name
	return c
}

// runThread executes a sequence on the thread's own tree and renders what it observed.
func runThread(w *world.World, t *mast.Mast, root *mast.Root, seq []tOp) string {
	cfg := w.Cfg
	var sb strings.Builder
	trees := []*mast.Mast{t}
	for _, op := range seq {
		r := guardRes(func() error {
			switch op.Kind {
			case "get":
				p := world.NewValPtr(cfg)
				ok, err := t.Get(ctx, cfg.Key(op.K), p)
				if err == nil {
					fmt.Fprintf(&sb, "get=%v", ok)
					if ok {
						fmt.Fprintf(&sb, ":%d", cfg.ValIndex(world.DerefVal(p)))
					}
				}
				return err
			case "iter":
				var ks []int
				err := t.Iter(ctx, func(k, v interface{}) error { ks = append(ks, keyIndex(cfg, k)*10+cfg.ValIndex(v)); return nil })
				fmt.Fprintf(&sb, "iter=%v", ks)
				return err
			case "ins":
				return t.Insert(ctx, cfg.FreshKey(op.K), cfg.FreshVal(op.V))
			case "del":
				return t.Delete(ctx, cfg.FreshKey(op.K), cfg.FreshVal(op.V))
			case "persist":
				rt, err := t.MakeRoot(ctx)
				if err == nil {
					fmt.Fprintf(&sb, "root=%s/%d/%d", linkOf(rt), rt.Height, rt.Size)
				}
				return err
			case "clone":
				c, err := t.Clone(ctx)
				if err == nil {
					trees = append(trees, &c)
				}
				return err
			case "load":
				t2, err := root.LoadMast(ctx, w.RemoteConfig(w.Store, true))
				if err == nil {
					trees = append(trees, t2)
				}
				return err
			}
			panic("unknown tOp")
		})
		fmt.Fprintf(&sb, "[%s->%s];", op, resClass(r))
	}
	for _, x := range trees {
		sb.WriteString(w.ReadContents(x).String())
	}
	return sb.String()
}

type c11World struct {
	w     *world.World
	root  *mast.Root
	trees []*mast.Mast
	baseC world.Contents
}

func c11Setup(sc c11Scenario) (*c11World, error) {
	cfg := c11Configs()[sc.Cfg]
	w, err := world.New(cfg)
	if err != nil {
		return nil, err
	}
	for _, k := range sc.Base {
		if r := w.Apply(world.Op{Kind: world.OpIns, K: k, V: 0}); r.Err != nil || r.Panic != nil {
			return nil, fmt.Errorf("base insert: %v", r)
		}
	}
	if r := w.Apply(world.Op{Kind: world.OpKeep, A: 0, B: 0}); r.Err != nil || r.Panic != nil {
		return nil, fmt.Errorf("base persist: %v", r)
	}
	cw := &c11World{w: w, root: w.Roots[0], baseC: w.RootC[0]}
	if sc.Capture == "coldload" {
		// the cache lost its entries: the trees below decode their nodes from the store and
		// share the decoded objects through the cache
		w.Cache.Clear()
	}
	for i := range sc.Seqs {
		var t *mast.Mast
		switch {
		case sc.Capture == "clone" && i == 0:
			// the tree that did the inserts and the MakeRoot itself (not a fresh load of its root): whatever a
			// tree accumulates while it is worked on is there when it is cloned
			t = w.Trees[0]
		case sc.Capture == "clone" && i > 0:
			c, err := cw.trees[0].Clone(ctx)
			if err != nil {
				return nil, err
			}
			t = &c
		default:
			t, err = cw.root.LoadMast(ctx, w.RemoteConfig(w.Store, true))
			if err != nil {
				return nil, err
			}
		}
		cw.trees = append(cw.trees, t)
	}
	return cw, nil
}

// c11Alone computes what thread i observes when it is the only one running.
func c11Alone(sc c11Scenario, i int) (string, error) {
	cw, err := c11Setup(sc)
	if err != nil {
		return "", err
	}
	return runThread(cw.w, cw.trees[i], cw.root, sc.Seqs[i]), nil
}

func c11Scenarios(thorough bool) []c11Scenario {
	var out []c11Scenario
	single := func(cfg *world.Config, keys []int) []tOp {
		var ops []tOp
		for _, k := range keys {
			ops = append(ops, tOp{"get", k, 0}, tOp{"ins", k, 1}, tOp{"del", k, 0})
		}
		ops = append(ops, tOp{Kind: "iter"}, tOp{Kind: "persist"}, tOp{Kind: "clone"}, tOp{Kind: "load"})
		return ops
	}
	type basePlan struct {
		cfg  int
		base []int
		keys []int // colliding keys the threads operate on (present and absent)
	}
	plans := []basePlan{
		{0, []int{0, 1, 3, 4}, []int{0, 2, 3}},          // uint {1,2,4,5}, operate on 1, 3(absent), 4
		{1, []int{0, 1, 2, 5, 6, 7}, []int{3, 4, 5}},    // deep user-key universe: insert 40 (layer 0), 50 (layer 2), touch 60
		{2, []int{0, 1, 2, 3, 4}, []int{1, 2}},          // evicting cache
		{3, []int{0, 1, 3}, []int{1, 2}},                // struct keys
		{0, []int{0, 1, 2, 3, 4}, []int{0, 1, 2}},       // uint {1..5}, height 2: deleting 2 merges the leaves [1] and [3] and the merged leaf stays in the tree
		{4, []int{0, 1, 3, 4, 5, 6, 2}, []int{3, 1, 0}}, // bf 4, key 3 inserted last (its leaf's slices grow by append): deleting 4 merges [1 2 3] and [5]
		{1, []int{0, 1, 2, 5, 6, 7}, []int{7, 3}},       // the same user-key tree: its top node holds only the maximum key 80 (right link nil); deleting 80 makes the cached child the top node; 40 goes in below it
		{5, []int{0, 1, 3, 4}, []int{0, 2}},             // tagged marshaler with registered types: point operations on trees whose nodes were decoded into the cache
	}
	for pi, pl := range plans {
		cfg := c11Configs()[pl.cfg]
		ops := single(cfg, pl.keys)
		for _, capt := range []string{"load", "clone", "coldload"} {
			if capt == "coldload" && pl.cfg == 2 {
				continue
			}
			for _, a := range ops {
				for _, b := range ops {
					if a.Kind == "get" && b.Kind == "get" {
						continue
					}
					if pi == 2 && !(a.Kind == "ins" || a.Kind == "del" || a.Kind == "persist") {
						continue
					}
					bound := 2
					if !thorough && (a.Kind == "persist" || b.Kind == "persist") {
						bound = 1 // MakeRoot brings ~40 more scheduling points; bound 2 for these is in the thorough tier
					}
					if !thorough && pi == 2 && capt == "clone" {
						continue
					}
					if pi >= 5 && !(a.Kind == "del" || a.Kind == "ins" || b.Kind == "del" || b.Kind == "ins") {
						continue
					}
					if pl.cfg == 5 && (capt == "clone" || a.Kind == "iter" || b.Kind == "iter" || a.Kind == "load" || b.Kind == "load" || a.Kind == "clone" || b.Kind == "clone" || a.Kind == "persist" || b.Kind == "persist") {
						continue // the decoder is what is new here: loads through the warm and the cold cache, point operations
					}
					if pi == 3 && (capt == "coldload" || a.Kind == "iter" || b.Kind == "iter" || a.Kind == "load" || b.Kind == "load" || a.Kind == "clone" || b.Kind == "clone" || a.Kind == "persist" || b.Kind == "persist") {
						continue // struct keys: the point operations (each compares keys through the marshaler)
					}
					out = append(out, c11Scenario{Cfg: pl.cfg, Base: pl.base, Capture: capt, Seqs: [][]tOp{{a}, {b}}, Bound: bound})
				}
			}
		}
		// two modifications in a row by one thread (the second one edits what the first one built) against a reader
		if pi >= 4 && pl.cfg != 5 {
			var muts []tOp
			for _, k := range pl.keys {
				muts = append(muts, tOp{"ins", k, 1}, tOp{"del", k, 0})
			}
			for _, a1 := range muts {
				for _, a2 := range muts {
					if a1 == a2 {
						continue
					}
					for _, capt := range []string{"load", "clone"} {
						out = append(out, c11Scenario{Cfg: pl.cfg, Base: pl.base, Capture: capt, Seqs: [][]tOp{{a1, a2}, {{Kind: "iter"}}}, Bound: 2})
					}
				}
			}
		}
		// mutate-then-persist against readers and writers
		for ki, k := range pl.keys[:2] {
			if !thorough && pl.cfg == 1 && ki == 1 {
				continue // inserting the layer-2 key dirties 5 nodes: its MakeRoot alone has thousands of schedules (thorough tier)
			}
			for _, b := range ops {
				if !thorough && b.Kind == "persist" {
					continue // two concurrent MakeRoot pipelines: tens of thousands of non-preemptive schedules (thorough tier)
				}
				out = append(out, c11Scenario{Cfg: pl.cfg, Base: pl.base, Capture: "load", Seqs: [][]tOp{{{"ins", k, 1}, {Kind: "persist"}}, {b}}, Bound: boundOf(thorough, 1, 0)})
				if thorough {
					out = append(out, c11Scenario{Cfg: pl.cfg, Base: pl.base, Capture: "load", Seqs: [][]tOp{{{"ins", k, 1}, {Kind: "persist"}}, {b, {Kind: "persist"}}}, Bound: 2})
					out = append(out, c11Scenario{Cfg: pl.cfg, Base: pl.base, Capture: "clone", Seqs: [][]tOp{{{"del", pl.keys[2%len(pl.keys)], 0}, {Kind: "persist"}}, {b, {"get", k, 0}}}, Bound: 2})
				}
			}
		}
		if thorough {
			// three threads
			for _, a := range ops[:6] {
				out = append(out, c11Scenario{Cfg: pl.cfg, Base: pl.base, Capture: "load", Seqs: [][]tOp{{a}, {{"ins", pl.keys[0], 1}}, {{Kind: "persist"}}}, Bound: 2})
			}
		}
	}
	return out
}

// C11Race is the free-running pass: the same thread bodies as real goroutines on
// the unmodified package, in a binary built with -race. A cooperative scheduler's
// hand-offs are happens-before edges, so the race detector is useless inside it;
// here nothing is scheduled and the detector sees the real accesses.
func C11Race(args []string) int {
	reps := 30
	n := 0
	scs := c11Scenarios(false)
	// both threads modify and persist at the same time (concurrent marshaling and flushing)
	for ci, cfg := range c11Configs() {
		nk := len(cfg.Keys)
		for _, capt := range []string{"load", "clone"} {
			scs = append(scs, c11Scenario{Cfg: ci, Base: []int{0, 1, nk - 1}, Capture: capt, Seqs: [][]tOp{{{"ins", 2, 1}, {Kind: "persist"}, {"del", 0, 0}, {Kind: "persist"}}, {{"ins", nk - 2, 1}, {Kind: "persist"}, {"ins", 2, 0}, {Kind: "persist"}}}})
		}
	}
	for _, sc := range scs {
		if len(sc.Seqs) != 2 {
			continue
		}
		mut := false
		for _, q := range sc.Seqs {
			for _, o := range q {
				if o.Kind == "ins" || o.Kind == "del" || o.Kind == "persist" {
					mut = true
				}
			}
		}
		if !mut {
			continue
		}
		for r := 0; r < reps; r++ {
			cw, err := c11Setup(sc)
			if err != nil {
				fmt.Println("setup:", err)
				return 2
			}
			var wg sync.WaitGroup
			start := make(chan struct{})
			for i := range sc.Seqs {
				wg.Add(1)
				go func(i int) {
					defer wg.Done()
					<-start
					runThread(cw.w, cw.trees[i], cw.root, sc.Seqs[i])
				}(i)
			}
			close(start)
			wg.Wait()
			n++
		}
	}
	fmt.Printf("c11-race: %d free-running executions\n", n)
	return 0
}

var reRaceFn = regexp.MustCompile(`(?m)^  (github\.com/jrhy/mast\.\S+)\(\)`)

// c11RacePass runs the race binary (if it was built) and turns reports into findings.
func c11RacePass(run *report.Run) {
	bin := filepath.Join(filepath.Dir(os.Args[0]), "mc-race")
	if _, err := os.Stat(bin); err != nil {
		run.Extra["race_pass"] = "not run: race-enabled binary not built"
		return
	}
	cmd := exec.Command(bin, "c11-race")
	cmd.Env = append(os.Environ(), "GORACE=halt_on_error=0 exitcode=0")
	var out, errb bytes.Buffer
	cmd.Stdout, cmd.Stderr = &out, &errb
	err := cmd.Run()
	txt := errb.String()
	races := strings.Count(txt, "WARNING: DATA RACE")
	run.Extra["race_pass"] = strings.TrimSpace(out.String())
	run.Extra["race_reports"] = races
	if err != nil && races == 0 {
		run.Add(report.Violation{Sig: "C11|race-pass-crashed", What: "the free-running pass crashed inside the code under test", Detail: fmt.Sprintf("%v: %s", err, tail(txt, 1500)), Check: "C11-race"})
		return
	}
	if races > 0 {
		// signature: the mast functions at the top of the two stacks of the first report
		first := txt[strings.Index(txt, "WARNING: DATA RACE"):]
		if e := strings.Index(first, "=================="); e > 0 {
			first = first[:e]
		}
		fns := reRaceFn.FindAllStringSubmatch(first, -1)
		seen := map[string]bool{}
		var names []string
		for _, m := range fns {
			f := strings.TrimPrefix(m[1], "github.com/jrhy/mast.")
			if !seen[f] && len(names) < 2 {
				seen[f] = true
				names = append(names, f)
			}
		}
		run.Add(report.Violation{Sig: "C11|data-race|" + strings.Join(names, "+"), What: "the Go race detector reports a data race between goroutines that each work on their own tree", Detail: tail(first, 3000), Check: "C11-race", Count: int64(races)})
	}
}

func tail(s string, n int) string {
	if len(s) > n {
		return s[:n]
	}
	return s
}

func boundOf(thorough bool, t, q int) int {
	if thorough {
		return t
	}
	return q
}
