package checks

import (
	"encoding/json"
	"fmt"
	"os"

	"verifharness/explore"
	"verifharness/report"
	"verifharness/world"
)

// replayable checks: how to find a configuration by name and which monitor to attach.
type replayer struct {
	configs func() []*world.Config
	mon     func(*world.Config) explore.Monitor
}

var replayers = map[string]replayer{
	"C01": {func() []*world.Config { return C01Configs(true) }, func(c *world.Config) explore.Monitor { return &c01Mon{cfg: c} }},
	"C10": {func() []*world.Config { return C10Configs(true) }, func(c *world.Config) explore.Monitor { return &c10Mon{} }},
	"C16": {func() []*world.Config { return C16Configs(true) }, func(c *world.Config) explore.Monitor { return &c16Mon{} }},
	"C13": {func() []*world.Config { return C13Configs(true) }, func(c *world.Config) explore.Monitor { return &c13Mon{} }},
	"C04": {func() []*world.Config { return StructConfigs(true, []string{"none", "big"}, bothFormats) }, func(c *world.Config) explore.Monitor { return &c04Mon{} }},
	"C09": {func() []*world.Config { return StructConfigs(true, []string{"none", "big"}, bothFormats) }, func(c *world.Config) explore.Monitor { return &c09Mon{} }},
	"C08": {func() []*world.Config { return c08Configs(true) }, func(c *world.Config) explore.Monitor { return newC08() }},
	"C05": {func() []*world.Config {
		return append(StructConfigs(true, []string{"none", "big"}, bothFormats), C05ExtraConfigs(true)...)
	}, func(c *world.Config) explore.Monitor { return &c05Mon{} }},
}

// Replay re-executes the history stored in a replay file step by step with the
// property's monitor attached and prints what it observes. Exit 1 if the
// violation reproduces, 0 if not.
func Replay(path string) int {
	b, err := os.ReadFile(path)
	if err != nil {
		fmt.Println(err)
		return 2
	}
	var v report.Violation
	if err := json.Unmarshal(b, &v); err != nil {
		fmt.Println(err)
		return 2
	}
	rp, ok := replayers[v.Check]
	if !ok {
		if f, ok := customReplay[v.Check]; ok {
			return f(v)
		}
		// generic replay: the check's space is small and deterministic - re-explore it and
		// look for the same signature
		fmt.Printf("recorded violation: property=%s sig=%s\n  what: %s\n  config: %s\n  history: %v\n  detail: %s\n", v.Property, v.Sig, v.What, v.Config, v.History, v.Detail)
		fn, ok := GenericChecks[v.Property]
		if !ok {
			fmt.Printf("no replayer for check %q\n", v.Check)
			return 2
		}
		fmt.Printf("re-exploring %s (quick tier) to look for this signature ...\n", v.Property)
		run := report.NewRun(v.Property, "model_checking")
		fn(run)
		if got, ok := run.Sigs()[v.Sig]; ok {
			fmt.Printf("REPRODUCED property=%s sig=%s (%d occurrences)\n  history: %v\n  detail: %s\n", v.Property, v.Sig, got.Count, got.History, got.Detail)
			return 1
		}
		fmt.Println("not reproduced")
		return 0
	}
	pl, _ := json.Marshal(v.Replay)
	var payload struct {
		Config string
		Ops    []world.Op
	}
	json.Unmarshal(pl, &payload)
	var cfg *world.Config
	for _, c := range rp.configs() {
		if c.Name == payload.Config {
			cfg = c
		}
	}
	if cfg == nil {
		fmt.Printf("config %q not found\n", payload.Config)
		return 2
	}
	mon := rp.mon(cfg)
	w, err := world.New(cfg)
	if err != nil {
		fmt.Println(err)
		return 2
	}
	hit := false
	for i, op := range payload.Ops {
		if !w.Enabled(op) {
			fmt.Printf("step %d %s: not enabled\n", i, cfg.Describe(op))
			return 2
		}
		pre := mon.Before(w, op)
		res := w.Apply(op)
		fs := mon.After(w, op, res, pre)
		fmt.Printf("step %d %s -> %v\n", i, cfg.Describe(op), res)
		for _, f := range fs {
			fmt.Printf("   finding sig=%s: %s (%s)\n", f.Sig, f.What, f.Detail)
			if f.Sig == v.Sig {
				hit = true
			}
		}
	}
	for _, f := range mon.OnState(w, payload.Ops) {
		fmt.Printf("   state finding sig=%s: %s (%s)\n", f.Sig, f.What, f.Detail)
		if f.Sig == v.Sig {
			hit = true
		}
	}
	if hit {
		fmt.Printf("REPRODUCED property=%s sig=%s\n", v.Property, v.Sig)
		return 1
	}
	fmt.Println("not reproduced")
	return 0
}

var customReplay = map[string]func(report.Violation) int{}

// GenericChecks maps a property to its check function (filled by the command).
var GenericChecks = map[string]func(*report.Run){}
