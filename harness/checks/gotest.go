package checks

import (
	"fmt"
	"strings"

	"verifharness/ref"
	"verifharness/world"
)

// GoTestFor renders a history as a plain Go test (package mast_test, public API
// only, the library's own in-memory store) that replays it without the explorer and
// prints what the tree answers; the comment says what the check expected.
func GoTestFor(cfg *world.Config, hist []world.Op, sig, what, detail string) string {
	lit := func(v interface{}) string {
		s := fmt.Sprintf("%#v", v)
		return strings.ReplaceAll(s, "world.", "")
	}
	var sb strings.Builder
	sb.WriteString("package mast_test\n\n// Replay of a violation found by /verif (no explorer needed).\n")
	fmt.Fprintf(&sb, "// signature: %s\n// what: %s\n// observed by the check: %s\n", sig, what, strings.ReplaceAll(detail, "\n", " "))
	sb.WriteString("import (\n\t\"context\"\n\t\"encoding/json\"\n\t\"fmt\"\n\t\"testing\"\n\n\t\"github.com/jrhy/mast\"\n)\n\nvar _ = json.Marshal\n\n")
	sb.WriteString("type LKey struct {\n\tK int\n\tL uint8\n}\n\nfunc (a LKey) Layer(bf uint) uint8 { return a.L }\nfunc (a LKey) Order(o mast.Key) int {\n\tb := o.(LKey)\n\tswitch {\n\tcase a.K < b.K:\n\t\treturn -1\n\tcase a.K > b.K:\n\t\treturn 1\n\t}\n\treturn 0\n}\n\n")
	sb.WriteString("type SKey struct {\n\tA string\n\tB int\n}\ntype SVal struct {\n\tAsdf string\n\tQ    bool\n}\ntype TVal struct {\n\tTags []string       `json:\",omitempty\"`\n\tM    map[string]int `json:\",omitempty\"`\n}\n\n")
	faulty := false
	for _, op := range hist {
		if op.Kind == world.OpPersistFail {
			faulty = true
		}
	}
	if faulty {
		sb.WriteString("// faultyStore fails the Store of every node whose name is in class `class` (sum of the name's bytes mod 3).\ntype faultyStore struct {\n\tmast.Persist\n\tclass int\n}\n\nfunc (f *faultyStore) Store(ctx context.Context, name string, b []byte) error {\n\ts := 0\n\tfor i := 0; i < len(name); i++ {\n\t\ts += int(name[i])\n\t}\n\tif s%3 == f.class {\n\t\treturn fmt.Errorf(\"injected store fault\")\n\t}\n\treturn f.Persist.Store(ctx, name, b)\n}\n\n")
	}
	sb.WriteString("func TestVerifReplay(t *testing.T) {\n\tctx := context.Background()\n")
	if cfg.InMemory {
		sb.WriteString("\tm0 := mast.NewInMemory()\n\ttrees := []*mast.Mast{&m0, nil, nil}\n")
	} else {
		nf := "mast.V115Binary"
		if cfg.Format == ref.FormatMarshaler {
			nf = "mast.V1Marshaler"
		}
		cache := ""
		if cfg.Cache != "none" && cfg.Cache != "" {
			cache = ", NodeCache: mast.NewNodeCache(1000)"
			if strings.HasPrefix(cfg.Cache, "tiny") {
				cache = ", NodeCache: mast.NewNodeCache(" + cfg.Cache[4:] + ") /* the check used a deterministic LRU of this capacity */"
			}
		}
		reg := ""
		if cfg.RegisteredTypes {
			reg = ", UnmarshalerUsesRegisteredTypes: true"
		}
		fmt.Fprintf(&sb, "\tcfg := &mast.RemoteConfig{KeysLike: %s, ValuesLike: %s, StoreImmutablePartsWith: mast.NewInMemoryStore()%s%s}\n", lit(cfg.KeysLike), lit(cfg.ValsLike), cache, reg)
		if faulty {
			sb.WriteString("\tfs := &faultyStore{Persist: cfg.StoreImmutablePartsWith, class: -1}\n\tcfg.StoreImmutablePartsWith = fs\n\tmarshalCalls, failMarshalAt := 0, -1\n\tcfg.Marshal = func(v interface{}) ([]byte, error) {\n\t\tmarshalCalls++\n\t\tif marshalCalls-1 == failMarshalAt {\n\t\t\treturn nil, fmt.Errorf(\"injected marshal fault\")\n\t\t}\n\t\treturn json.Marshal(v)\n\t}\n")
		}
		fmt.Fprintf(&sb, "\tm0, err := mast.NewRoot(&mast.CreateRemoteOptions{BranchFactor: %d, NodeFormat: %s}).LoadMast(ctx, cfg)\n\tif err != nil {\n\t\tt.Fatal(err)\n\t}\n\ttrees := []*mast.Mast{m0, nil, nil}\n\troots := []*mast.Root{nil, nil}\n\t_ = roots\n", cfg.BF, nf)
	}
	for i, op := range hist {
		fmt.Fprintf(&sb, "\t// step %d: %s\n", i, cfg.Describe(op))
		switch op.Kind {
		case world.OpIns:
			fmt.Fprintf(&sb, "\tfmt.Println(\"insert ->\", trees[%d].Insert(ctx, %s, %s))\n", op.A, lit(cfg.Key(op.K)), lit(cfg.Vals[op.V]))
		case world.OpDel:
			fmt.Fprintf(&sb, "\tfmt.Println(\"delete ->\", trees[%d].Delete(ctx, %s, %s))\n", op.A, lit(cfg.Key(op.K)), lit(cfg.Vals[op.V]))
		case world.OpGet:
			fmt.Fprintf(&sb, "\t{\n\t\tok, err := trees[%d].Get(ctx, %s, nil)\n\t\tfmt.Println(\"get ->\", ok, err)\n\t}\n", op.A, lit(cfg.Key(op.K)))
		case world.OpIter:
			fmt.Fprintf(&sb, "\tfmt.Println(\"iter ->\", trees[%d].Iter(ctx, func(k, v interface{}) error { return nil }))\n", op.A)
		case world.OpPersist:
			fmt.Fprintf(&sb, "\t{\n\t\tr, err := trees[%d].MakeRoot(ctx)\n\t\tfmt.Printf(\"MakeRoot -> %%+v %%v\\n\", r, err)\n\t}\n", op.A)
		case world.OpPersistFail:
			if op.V >= 10 {
				fmt.Fprintf(&sb, "\t{\n\t\tmarshalCalls, failMarshalAt = 0, %d\n\t\tr, err := trees[%d].MakeRoot(ctx)\n\t\tfailMarshalAt = -1\n\t\tfmt.Printf(\"MakeRoot (Marshal call #%d failing) -> %%+v %%v\\n\", r, err)\n\t}\n", op.V-10, op.A, op.V-10)
			} else {
				fmt.Fprintf(&sb, "\t{\n\t\tfs.class = %d\n\t\tr, err := trees[%d].MakeRoot(ctx)\n\t\tfs.class = -1\n\t\tfmt.Printf(\"MakeRoot (stores of name class %d failing) -> %%+v %%v\\n\", r, err)\n\t}\n", op.V, op.A, op.V)
			}
		case world.OpKeep:
			fmt.Fprintf(&sb, "\t{\n\t\tr, err := trees[%d].MakeRoot(ctx)\n\t\tfmt.Printf(\"MakeRoot -> %%+v %%v\\n\", r, err)\n\t\troots[%d] = r\n\t}\n", op.A, op.B)
		case world.OpReload, world.OpReloadJSON:
			fmt.Fprintf(&sb, "\t{\n\t\tr, err := trees[%d].MakeRoot(ctx)\n\t\tfmt.Printf(\"MakeRoot -> %%+v %%v\\n\", r, err)\n\t\tif err == nil {\n\t\t\ttrees[%d], err = r.LoadMast(ctx, cfg)\n\t\t\tfmt.Println(\"LoadMast ->\", err)\n\t\t}\n\t}\n", op.A, op.A)
		case world.OpLoad:
			fmt.Fprintf(&sb, "\t{\n\t\tvar err error\n\t\ttrees[%d], err = roots[%d].LoadMast(ctx, cfg)\n\t\tfmt.Println(\"LoadMast ->\", err)\n\t}\n", op.A, op.B)
		case world.OpLoadNoCache:
			fmt.Fprintf(&sb, "\t{\n\t\tnc := *cfg\n\t\tnc.NodeCache = nil\n\t\tvar err error\n\t\ttrees[%d], err = roots[%d].LoadMast(ctx, &nc)\n\t\tfmt.Println(\"LoadMast (no cache) ->\", err)\n\t}\n", op.A, op.B)
		case world.OpClone:
			fmt.Fprintf(&sb, "\t{\n\t\tc, err := trees[%d].Clone(ctx)\n\t\tfmt.Println(\"Clone ->\", err)\n\t\ttrees[%d] = &c\n\t}\n", op.A, op.B)
		case world.OpCursor:
			fmt.Fprintf(&sb, "\t{\n\t\t_, err := trees[%d].Cursor(ctx)\n\t\tfmt.Println(\"Cursor ->\", err)\n\t}\n", op.A)
		case world.OpFlushCache:
			sb.WriteString("\t// (the shared node cache lost all its entries here: use a fresh mast.NewNodeCache in cfg.NodeCache)\n\tcfg.NodeCache = mast.NewNodeCache(1000)\n")
		}
	}
	sb.WriteString("\t// what the trees answer now\n\tfor i, tr := range trees {\n\t\tif tr == nil {\n\t\t\tcontinue\n\t\t}\n\t\tfmt.Printf(\"tree %d: size=%d height=%d dirty=%v\\n\", i, tr.Size(), tr.Height(), tr.IsDirty())\n")
	sb.WriteString("\t\tfor _, k := range []interface{}{")
	for i := 0; i < cfg.NAll(); i++ {
		if i > 0 {
			sb.WriteString(", ")
		}
		sb.WriteString(lit(cfg.Key(i)))
	}
	sb.WriteString("} {\n\t\t\tok, err := tr.Get(ctx, k, nil)\n\t\t\tfmt.Printf(\"  Get(%v) = %v %v\\n\", k, ok, err)\n\t\t}\n")
	sb.WriteString("\t\terr := tr.Iter(ctx, func(k, v interface{}) error { fmt.Printf(\"  iter %v=%v\\n\", k, v); return nil })\n\t\tfmt.Println(\"  Iter ->\", err)\n\t}\n}\n")
	return sb.String()
}
