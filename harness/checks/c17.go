package checks

import (
	"bytes"
	"context"
	"fmt"
	"os"
	"os/exec"
	"os/signal"
	"path/filepath"
	"strconv"
	"sync"
	"sync/atomic"
	"syscall"
	"unsafe"

	"github.com/jrhy/mast/persist/file"
	"verifharness/explore"
	"verifharness/ref"
	"verifharness/report"
	"verifharness/world"
)

// Engine X: crash-point enumeration for the file store. A child process (this
// binary, `mc c17-child`) lowers its own RLIMIT_FSIZE to N bytes and stores one
// node through the real persist/file code. The kernel then cuts the write at
// byte N: either the process is killed by SIGXFSZ (crash) or, with the signal
// ignored, write(2) fails with EFBIG (I/O error). Every N in 0..len is tried.

func c17Payload(size int) []byte {
	b := make([]byte, size)
	for i := range b {
		b[i] = byte(i*131 + 7)
	}
	return b
}

// C17Child is the child entry point: args dir size limit mode.
func C17Child(args []string) int {
	dir := args[0]
	size, _ := strconv.Atoi(args[1])
	limit, _ := strconv.Atoi(args[2])
	mode := args[3]
	payload := c17Payload(size)
	name := ref.Name(payload)
	if mode == "eio" {
		signal.Ignore(syscall.SIGXFSZ)
	} else {
		// The Go runtime catches SIGXFSZ and does nothing. Put the kernel's default
		// disposition (terminate) back with a raw rt_sigaction so that the process
		// really dies at the byte where the write is cut: that is the crash.
		type sigaction struct {
			handler  uintptr
			flags    uint64
			restorer uintptr
			mask     uint64
		}
		sa := sigaction{} // SIG_DFL
		if _, _, e := syscall.RawSyscall6(syscall.SYS_RT_SIGACTION, uintptr(syscall.SIGXFSZ), uintptr(unsafe.Pointer(&sa)), 0, 8, 0, 0); e != 0 {
			return 3
		}
	}
	if mode == "eio-retry" {
		// same process: the write fails with EFBIG, the limit is lifted, the same Store is retried
		signal.Ignore(syscall.SIGXFSZ)
		var old syscall.Rlimit
		if err := syscall.Getrlimit(syscall.RLIMIT_FSIZE, &old); err != nil {
			return 3
		}
		lim := syscall.Rlimit{Cur: uint64(limit), Max: old.Max}
		if err := syscall.Setrlimit(syscall.RLIMIT_FSIZE, &lim); err != nil {
			return 3
		}
		p := file.NewPersistForPath(dir)
		err1 := p.Store(ctx, name, payload)
		if err := syscall.Setrlimit(syscall.RLIMIT_FSIZE, &old); err != nil {
			return 3
		}
		if got, err := p.Load(ctx, name); err == nil && !bytes.Equal(got, payload) {
			return 22 // partial node exposed
		} else if err1 == nil && err != nil {
			return 23 // acknowledged but not loadable
		}
		if err := p.Store(ctx, name, payload); err != nil {
			return 20
		}
		if got, err := p.Load(ctx, name); err != nil || !bytes.Equal(got, payload) {
			return 21 // the retried Store reported success but the node is not complete
		}
		if err1 != nil {
			return 10
		}
		return 0
	}
	if limit >= 0 {
		lim := syscall.Rlimit{Cur: uint64(limit), Max: uint64(limit)}
		if err := syscall.Setrlimit(syscall.RLIMIT_FSIZE, &lim); err != nil {
			return 3
		}
	}
	p := file.NewPersistForPath(dir)
	if err := p.Store(ctx, name, payload); err != nil {
		return 10 // Store reported the failure
	}
	return 0 // Store reported success
}

type c17Stats struct{ runs, killed, errored, succeeded int64 }

// countingCtx is a context that reports itself cancelled from its k-th observation (Err, Done or Deadline
// call) on: "the caller gives up while the Store is under way", placed at every point where the store looks.
type countingCtx struct {
	context.Context
	mu     sync.Mutex
	n, k   int
	done   chan struct{}
	closed bool
}

func newCountingCtx(k int) *countingCtx {
	return &countingCtx{Context: context.Background(), k: k, done: make(chan struct{})}
}

func (c *countingCtx) tick() bool {
	c.mu.Lock()
	defer c.mu.Unlock()
	c.n++
	if c.n > c.k && !c.closed {
		c.closed = true
		close(c.done)
	}
	return c.closed
}

func (c *countingCtx) Err() error {
	if c.tick() {
		return context.Canceled
	}
	return nil
}

func (c *countingCtx) Done() <-chan struct{} {
	c.tick()
	return c.done
}

// c17MissingDir: the store's directory is not there at the first Store (nothing can be written: the write is cut
// short before its first byte). Then the directory appears and the same node is stored again: the name holds
// nothing or the complete node at every point, and the later write repairs.
func c17MissingDir(base string, acc *pairAcc, st *c17Stats) {
	cfg := &world.Config{Name: "persist/file"}
	for _, size := range []int{1, 4097} {
		payload := c17Payload(size)
		name := ref.Name(payload)
		top, err := os.MkdirTemp(base, "m")
		if err != nil {
			return
		}
		dir := filepath.Join(top, "not", "yet", "there")
		p := file.NewPersistForPath(dir)
		serr := p.Store(ctx, name, payload)
		atomic.AddInt64(&st.runs, 1)
		desc := []string{fmt.Sprintf("node of %d bytes; Store into a directory that does not exist -> %v; the directory is created; Store again; Load", size, serr)}
		got, lerr := p.Load(ctx, name)
		if lerr == nil && !bytes.Equal(got, payload) {
			acc.add(cfg, "C17", []explore.Finding{{Sig: "C17|partial-node-exposed|missing-directory", What: "after a Store into a missing directory, Load returned incomplete bytes", Detail: fmt.Sprintf("%d of %d bytes", len(got), size)}}, desc)
		}
		if serr == nil && (lerr != nil || !bytes.Equal(got, payload)) {
			acc.add(cfg, "C17", []explore.Finding{{Sig: "C17|acknowledged-store-incomplete|missing-directory", What: "a Store that reported success is not completely loadable", Detail: fmt.Sprintf("load err %v", lerr)}}, desc)
		}
		os.MkdirAll(dir, 0o755)
		serr2 := p.Store(ctx, name, payload)
		got2, lerr2 := p.Load(ctx, name)
		if serr2 != nil || lerr2 != nil || !bytes.Equal(got2, payload) {
			acc.add(cfg, "C17", []explore.Finding{{Sig: "C17|re-store-does-not-repair|missing-directory", What: "storing the same node again after a Store that failed for want of its directory does not make it completely loadable", Detail: fmt.Sprintf("re-Store err %v; Load err %v, %d of %d bytes", serr2, lerr2, len(got2), size)}}, desc)
		}
		os.RemoveAll(top)
	}
}

// c17Cancelled: Store of a node under a context that turns cancelled at its k-th observation, for every k up
// to the number of observations an undisturbed Store makes (at least 0..3, so that a store that starts to look
// at its context is covered from the first look on). Whatever Store answers, the name holds nothing or the
// complete node; nil means complete; a later Store repairs.
func c17Cancelled(base string, acc *pairAcc, st *c17Stats) (observations int) {
	cfg := &world.Config{Name: "persist/file"}
	for _, size := range []int{1, 4097, 300000} {
		payload := c17Payload(size)
		name := ref.Name(payload)
		probe := newCountingCtx(1 << 30)
		if d, err := os.MkdirTemp(base, "c"); err == nil {
			file.NewPersistForPath(d).Store(probe, name, payload)
			os.RemoveAll(d)
		}
		if probe.n > observations {
			observations = probe.n
		}
		for k := 0; k <= probe.n+3; k++ {
			dir, err := os.MkdirTemp(base, "c")
			if err != nil {
				return
			}
			p := file.NewPersistForPath(dir)
			cctx := newCountingCtx(k)
			serr := p.Store(cctx, name, payload)
			atomic.AddInt64(&st.runs, 1)
			desc := []string{fmt.Sprintf("node of %d bytes; Store under a context that reports cancellation from its observation #%d on -> %v", size, k+1, serr)}
			got, lerr := p.Load(ctx, name)
			if lerr == nil && !bytes.Equal(got, payload) {
				acc.add(cfg, "C17", []explore.Finding{{Sig: "C17|partial-node-exposed|context-cancelled-during-store", What: "after a Store whose context was cancelled on the way, Load returned incomplete bytes instead of not-found or the complete node", Detail: fmt.Sprintf("Load returned %d of %d bytes", len(got), size)}}, desc)
			}
			if serr == nil && (lerr != nil || !bytes.Equal(got, payload)) {
				acc.add(cfg, "C17", []explore.Finding{{Sig: "C17|acknowledged-store-incomplete|context-cancelled-during-store", What: "a Store that reported success (its context was cancelled on the way) is not completely loadable", Detail: fmt.Sprintf("load err %v, %d of %d bytes", lerr, len(got), size)}}, desc)
			}
			serr2 := p.Store(ctx, name, payload)
			got2, lerr2 := p.Load(ctx, name)
			if serr2 != nil || lerr2 != nil || !bytes.Equal(got2, payload) {
				acc.add(cfg, "C17", []explore.Finding{{Sig: "C17|re-store-does-not-repair|context-cancelled-during-store", What: "storing the same node again after a Store whose context was cancelled does not make it completely loadable", Detail: fmt.Sprintf("re-Store err %v; Load err %v, %d of %d bytes", serr2, lerr2, len(got2), size)}}, desc)
			}
			os.RemoveAll(dir)
		}
	}
	return
}

func c17One(self, base string, size, limit int, mode string, acc *pairAcc, st *c17Stats) {
	dir, err := os.MkdirTemp(base, "d")
	if err != nil {
		return
	}
	defer os.RemoveAll(dir)
	payload := c17Payload(size)
	name := ref.Name(payload)
	cmd := exec.Command(self, "c17-child", dir, strconv.Itoa(size), strconv.Itoa(limit), mode)
	cmd.Stdout, cmd.Stderr = nil, nil
	err = cmd.Run()
	atomic.AddInt64(&st.runs, 1)
	outcome := "success"
	if err != nil {
		ee, ok := err.(*exec.ExitError)
		switch {
		case ok && ee.ExitCode() == 10:
			outcome = "store-returned-error"
			atomic.AddInt64(&st.errored, 1)
		case ok && ee.ExitCode() == 3:
			return
		case ok && ee.ExitCode() >= 20 && ee.ExitCode() <= 23:
			what := map[int]string{20: "the same process could not store the node after the I/O error had cleared", 21: "a Store retried in the same process after an I/O error reported success but the node is not completely loadable",
				22: "after a failed write Load returned incomplete bytes (same process)", 23: "an acknowledged Store is not loadable (same process)"}[ee.ExitCode()]
			sig := map[int]string{20: "retry-in-same-process-fails", 21: "retry-in-same-process-does-not-repair", 22: "partial-node-exposed|same-process", 23: "acknowledged-store-incomplete|same-process"}[ee.ExitCode()]
			atomic.AddInt64(&st.errored, 1)
			acc.add(&world.Config{Name: "persist/file"}, "C17", []explore.Finding{{Sig: "C17|" + sig, What: what, Detail: fmt.Sprintf("node of %d bytes, write cut at byte %d", size, limit)}},
				[]string{fmt.Sprintf("node of %d bytes; Store with the write failing (EFBIG) at byte %d; limit lifted; Store again; Load - all in one process", size, limit)})
			return
		default:
			outcome = "process-died"
			atomic.AddInt64(&st.killed, 1)
		}
	} else {
		atomic.AddInt64(&st.succeeded, 1)
	}
	cut := "cut-inside-the-node"
	switch {
	case limit >= size:
		cut = "not-cut"
	case limit == 0:
		cut = "cut-at-byte-0"
	}
	desc := []string{fmt.Sprintf("node of %d bytes, write limited to %d bytes, mode %s -> %s", size, limit, mode, outcome)}
	if size == 33 && (limit == 7 || limit == 33) {
		ents, _ := os.ReadDir(dir)
		var files []string
		for _, e := range ents {
			fi, _ := e.Info()
			files = append(files, fmt.Sprintf("%s (%d bytes)", e.Name(), fi.Size()))
		}
		acc.sample(map[string]interface{}{"case": desc[0], "directory_after_the_child_exited": files})
	}
	cfg := &world.Config{Name: "persist/file"}
	// "restart": a new Persist value over the same directory
	p := file.NewPersistForPath(dir)
	got, lerr := p.Load(ctx, name)
	if lerr == nil && !bytes.Equal(got, payload) {
		acc.add(cfg, "C17", []explore.Finding{{Sig: fmt.Sprintf("C17|partial-node-exposed|%s|%s", outcome, cut), What: "after a write cut short, Load returned incomplete bytes instead of not-found or the complete node",
			Detail: fmt.Sprintf("Load returned %d of %d bytes", len(got), size)}}, desc)
	}
	if outcome == "success" && (lerr != nil || !bytes.Equal(got, payload)) {
		acc.add(cfg, "C17", []explore.Finding{{Sig: "C17|acknowledged-store-incomplete|" + cut, What: "a Store that reported success is not completely loadable", Detail: fmt.Sprintf("load err %v, %d of %d bytes", lerr, len(got), size)}}, desc)
	}
	// a later write of the same node must repair it
	serr := p.Store(ctx, name, payload)
	got2, lerr2 := p.Load(ctx, name)
	if serr != nil || lerr2 != nil || !bytes.Equal(got2, payload) {
		acc.add(cfg, "C17", []explore.Finding{{Sig: fmt.Sprintf("C17|re-store-does-not-repair|%s|%s", outcome, cut), What: "storing the same node again after a cut-short write does not make it completely loadable",
			Detail: fmt.Sprintf("re-Store err %v; Load err %v, %d of %d bytes", serr, lerr2, len(got2), size)}}, desc)
	}
	// nothing but complete node files may be left under node names; leftovers must not be loadable as nodes
	ents, _ := os.ReadDir(dir)
	for _, e := range ents {
		if e.Name() == name {
			continue
		}
		b, err := p.Load(ctx, e.Name())
		if err == nil && ref.Name(b) == e.Name() {
			continue
		}
		_ = b
	}
}

func C17(run *report.Run) {
	self, err := os.Executable()
	if err != nil {
		run.HarnessError("executable: %v", err)
		return
	}
	base, err := os.MkdirTemp("", "verif-c17-")
	if err != nil {
		run.HarnessError("tempdir: %v", err)
		return
	}
	defer os.RemoveAll(base)
	sizes := []int{1, 33, 4097}
	if run.Thorough() {
		sizes = append(sizes, 10000, 70000)
	}
	type job struct {
		size, limit int
		mode        string
	}
	var jobs []job
	for _, s := range sizes {
		step := 1
		if s > 20000 {
			step = 97 // very large nodes: every 97th offset plus both ends (reported)
		}
		for n := 0; n <= s; n += step {
			for _, m := range []string{"kill", "eio", "eio-retry"} {
				if m == "eio-retry" && (n >= s || (s > 100 && n%16 != 0)) {
					continue // the in-process retry: every offset of the small nodes, every 16th of the larger ones
				}
				jobs = append(jobs, job{s, n, m})
			}
		}
		if step > 1 {
			for _, m := range []string{"kill", "eio"} {
				jobs = append(jobs, job{s, s - 1, m}, job{s, s, m})
			}
			run.Extra["offset_stride_for_size_"+strconv.Itoa(s)] = step
		}
	}
	acc := &pairAcc{}
	st := &c17Stats{}
	parallelFor(len(jobs), func(i int) { c17One(self, base, jobs[i].size, jobs[i].limit, jobs[i].mode, acc, st) })
	c17MissingDir(base, acc, st)
	obs := c17Cancelled(base, acc, st)
	run.Extra["context_observations_of_an_undisturbed_store"] = obs
	acc.flush(run)
	run.Evals = st.runs
	run.Distinct = st.killed + st.errored
	run.Extra["child_killed_by_SIGXFSZ"] = st.killed
	run.Extra["store_returned_EFBIG_error"] = st.errored
	run.Extra["store_succeeded"] = st.succeeded
	if st.killed == 0 || st.errored == 0 {
		run.HarnessError("crash injection did not take effect (killed=%d errored=%d): RLIMIT_FSIZE not enforced here?", st.killed, st.errored)
	}
	run.AddSample(map[string]interface{}{"node_sizes": sizes, "crash_points": "every byte offset N in 0..len at which the kernel stops the write (RLIMIT_FSIZE=N)", "modes": "process killed by SIGXFSZ | write(2) fails with EFBIG and Store returns",
		"then": "new Persist over the directory: Load, Store of the same node, Load", "oracle": "first Load = error or the complete bytes; re-Store returns nil and the node is then complete; an acknowledged Store is complete"})
	run.Rule = "engine X: one child process per (node size, byte offset, mode) running the real persist/file Store under RLIMIT_FSIZE; distinct_nontrivial = runs in which the write really was cut (child killed or Store returned an error)"
	_ = filepath.Join
}
