//go:build sched

package checks

import (
	"encoding/json"
	"fmt"
	"os"
	"os/exec"
	"runtime"
	"sort"
	"strconv"
	"sync"

	"github.com/jrhy/mast"
	"github.com/jrhy/mast/verifrt"
	"verifharness/env"
	"verifharness/explore"
	"verifharness/ref"
	"verifharness/report"
	"verifharness/sched"
	"verifharness/world"
)

// C03 part B (engine S): every interleaving, up to a preemption bound, of the
// goroutines of one MakeRoot (caller, dispatcher, workers) over an instrumented
// copy of package mast, with every Persist.Store call a scheduling point and
// optionally one node's write failing.

type c03Scenario struct {
	Cfg   int // index into c03SchedConfigs
	Hist  []world.Op
	Names []string // node names written by a fault-free MakeRoot (sorted)
	Fail  int      // index into Names of the failing write, -1 none
	Bound int
	// Prefix > 0: only the first Prefix schedules of the DFS are run (a tree too large to
	// enumerate: the gate-saturation scenario); reported separately, never counted as exhaustive
	Prefix int64
}

func c03SchedConfigs() []*world.Config {
	B, M := ref.FormatBinary, ref.FormatMarshaler
	return []*world.Config{
		world.UintCfg(2, urange(1, 5), 1, B, "none"),
		world.UintCfg(2, urange(1, 4), 1, M, "big"),
		world.LKeyCfg(2, []uint8{0, 2, 0, 1, 0, 1}, 1, B, "none"),
		world.UintCfg(2, urange(1, 64), 1, B, "none"), // saturation: 63 dirty nodes
	}
}

func c03Scenarios(thorough bool) []c03Scenario {
	var out []c03Scenario
	for ci, cfg := range c03SchedConfigs() {
		if len(cfg.Keys) > 20 {
			if !thorough {
				continue
			}
			// the saturation tree: all keys inserted, a DFS prefix with no fault and with one of three writes failing
			var hist []world.Op
			for k := range cfg.Keys {
				hist = append(hist, world.Op{Kind: world.OpIns, K: k, V: 0})
			}
			w, err := explore.Replay(cfg, hist, true)
			if err != nil {
				continue
			}
			w.Store.ResetLog()
			if _, err := w.Trees[0].MakeRoot(ctx); err != nil {
				continue
			}
			var names []string
			for _, c := range w.Store.Calls("store") {
				names = append(names, c.Name)
			}
			sort.Strings(names)
			for _, f := range []int{-1, 0, len(names) / 2, len(names) - 1} {
				out = append(out, c03Scenario{Cfg: ci, Hist: hist, Names: names, Fail: f, Bound: 0, Prefix: 300})
			}
			continue
		}
		e := &explore.Explorer{Cfg: cfg, Ops: filterOps(SingleOps(cfg, true)), Mon: explore.NopMonitor{}, Reduced: true, KeepHists: true, MaxStates: 20000}
		e.Run()
		// one representative (the shortest history) per (number of writes, height, set of written names)
		seen := map[string]bool{}
		for _, h := range e.Hists {
			w, err := explore.Replay(cfg, h, true)
			if err != nil {
				continue
			}
			w.Store.ResetLog()
			root, err := w.Trees[0].MakeRoot(ctx)
			if err != nil {
				continue
			}
			var names []string
			for _, c := range w.Store.Calls("store") {
				names = append(names, c.Name)
			}
			sort.Strings(names)
			d := len(names)
			if d == 0 {
				continue
			}
			key := fmt.Sprintf("%d/%d", d, root.Height)
			if thorough {
				// also distinguish how the written nodes hang together (which of them are linked from which)
				key = fmt.Sprintf("%d/%d/%d", d, root.Height, len(w.Store.Names()))
			}
			if seen[key] {
				continue
			}
			seen[key] = true
			bound := 0
			switch {
			case d <= 2:
				bound = 2
				if thorough {
					bound = 3
				}
			case d <= 3:
				bound = 1
				if thorough {
					bound = 2
				}
			case d <= 5 && thorough:
				bound = 1
			case d <= 5:
				bound = 0
			default:
				continue
			}
			for f := -1; f < d; f++ {
				if f >= 0 && bound == 0 {
					break
				}
				out = append(out, c03Scenario{Cfg: ci, Hist: h, Names: names, Fail: f, Bound: bound})
			}
		}
	}
	return out
}

func filterOps(ops []world.Op) []world.Op {
	var out []world.Op
	for _, op := range ops {
		if op.Kind != world.OpGet && op.Kind != world.OpIter {
			out = append(out, op)
		}
	}
	return out
}

type c03ShardResult struct {
	Schedules       int64
	Scenarios       int
	MaxPoints       int
	Outcomes        int
	Capped          bool
	Findings        []report.Violation
	Errors          []string
	Sample          map[string]interface{}
	PrefixSchedules int64
}

func c03RunScenario(sc c03Scenario, res *c03ShardResult, budget int64) {
	cfg := c03SchedConfigs()[sc.Cfg]
	body := func() func() func(*verifrt.Result) sched.Outcome {
		// outside the scheduler: build the world
		w, err := explore.Replay(cfg, sc.Hist, true)
		if err != nil {
			return func() func(*verifrt.Result) sched.Outcome {
				return func(*verifrt.Result) sched.Outcome { return sched.Outcome{Obs: "harness:" + err.Error()} }
			}
		}
		t := w.Trees[0]
		pre := w.ReadContents(t)
		return func() func(*verifrt.Result) sched.Outcome { // thread 0, under the scheduler
			failName := ""
			if sc.Fail >= 0 {
				failName = sc.Names[sc.Fail]
			}
			failed := false
			var mu sync.Mutex
			w.Store.Gate = func(kind, name string) error {
				verifrt.Env(kind + ":" + name[:6])
				if kind == "store" && name == failName {
					mu.Lock()
					failed = true
					mu.Unlock()
					return env.ErrInjected
				}
				return nil
			}
			var root *mast.Root
			r := guardRes(func() (err error) { root, err = t.MakeRoot(ctx); return })
			// the instant MakeRoot returned: nobody else has run since
			var fs []string
			obs := "error"
			mu.Lock()
			didFail := failed
			mu.Unlock()
			switch {
			case r.Panic != nil:
				obs = "panic"
				fs = append(fs, fmt.Sprintf("MakeRoot-panicked\x00MakeRoot panicked\x00%v", r.Panic))
			case r.Err == nil:
				obs = "ok:" + linkOf(root)
				if err := reachCheck(cfg, w.Store, root); err != nil {
					fs = append(fs, "returned-before-writes-completed\x00MakeRoot returned success while a node reachable from the returned root was not (yet) in the store\x00"+err.Error())
				}
				if didFail {
					fs = append(fs, "write-failed-but-success-reported\x00a Store call failed but MakeRoot reported success\x00"+failName)
				}
			}
			return func(res *verifrt.Result) sched.Outcome {
				// after every goroutine has finished
				w.Store.Gate = nil
				out := sched.Outcome{Obs: obs, Findings: fs}
				if r.Err != nil {
					if !didFail {
						out.Findings = append(out.Findings, "error-without-failed-write\x00MakeRoot failed although no write failed\x00"+r.Err.Error())
					}
					if post := w.ReadContents(t); !post.Equal(pre) {
						out.Findings = append(out.Findings, "tree-unusable-after-failed-MakeRoot\x00after a failed MakeRoot the tree no longer answers Get/Size as before\x00"+post.String())
					}
					if root2, err := t.MakeRoot(ctx); err == nil {
						if err := reachCheck(cfg, w.Store, root2); err != nil {
							out.Findings = append(out.Findings, "retry-succeeded-with-nodes-missing\x00a later MakeRoot reported success although a reachable node is not in the store\x00"+err.Error())
						}
					} else {
						out.Findings = append(out.Findings, "retry-fails-after-fault-cleared\x00MakeRoot keeps failing after the fault cleared\x00"+err.Error())
					}
				}
				return out
			}
		}
	}
	ex := &sched.Explorer{Bound: sc.Bound, MaxPoints: 5000, Budget: budget}
	if sc.Prefix > 0 {
		ex.Budget = sc.Prefix
		ex.MaxPoints = 20000
	}
	ex.Explore(body)
	if sc.Prefix > 0 {
		ex.Capped = false // by construction a prefix; counted separately
		res.PrefixSchedules += ex.Schedules
	}
	if os.Getenv("VERIF_DEBUG") != "" {
		fmt.Fprintf(os.Stderr, "scenario cfg=%d d=%d fail=%d bound=%d: schedules=%d maxpoints=%d outcomes=%d capped=%v\n", sc.Cfg, len(sc.Names), sc.Fail, sc.Bound, ex.Schedules, ex.MaxSeen, len(ex.Outcomes), ex.Capped)
	}
	res.Schedules += ex.Schedules
	res.Scenarios++
	if ex.MaxSeen > res.MaxPoints {
		res.MaxPoints = ex.MaxSeen
	}
	res.Outcomes += len(ex.Outcomes)
	if ex.Capped {
		res.Capped = true
	}
	if res.Sample == nil && sc.Fail >= 0 && len(sc.Names) >= 2 {
		var outs []string
		for o := range ex.Outcomes {
			outs = append(outs, o)
		}
		res.Sample = map[string]interface{}{"tree_built_by": cfg.DescribeHist(sc.Hist), "nodes_written_by_MakeRoot": sc.Names, "failing_write": sc.Names[sc.Fail], "preemption_bound": sc.Bound,
			"schedules_explored": ex.Schedules, "one_of_them": ex.Sample, "observed_outcomes": outs}
	}
	if ex.Divergence != "" {
		res.Errors = append(res.Errors, fmt.Sprintf("replay divergence in %v fail=%d: %s", cfg.DescribeHist(sc.Hist), sc.Fail, ex.Divergence))
	}
	for sig, f := range ex.Findings {
		cls := "no-fault"
		if sc.Fail >= 0 {
			cls = "one-write-failing"
		}
		res.Findings = append(res.Findings, report.Violation{Sig: "C03|sched|" + sig + "|" + cls, What: f.What, Detail: f.Detail, Config: cfg.Name, Check: "C03-sched",
			History: append(cfg.DescribeHist(sc.Hist), fmt.Sprintf("MakeRoot under schedule %v (failing write: %d of %v)", f.Choices, sc.Fail, len(sc.Names))),
			Replay:  map[string]interface{}{"scenario": sc, "choices": f.Choices}, Count: f.Count})
	}
}

// C03Shard runs the scenarios i, i+n, i+2n, ... and prints a JSON result.
func C03Shard(args []string) int {
	i, _ := strconv.Atoi(args[0])
	n, _ := strconv.Atoi(args[1])
	thorough := os.Getenv("VERIF_TIER") == "thorough"
	scs := c03Scenarios(thorough)
	res := &c03ShardResult{}
	budget := int64(60000)
	if thorough {
		budget = 400000
	}
	for j, sc := range scs {
		if j%n == i {
			c03RunScenario(sc, res, budget)
		}
	}
	json.NewEncoder(os.Stdout).Encode(res)
	return 0
}

func c03Schedules(run *report.Run, acc *pairAcc) {
	self, _ := os.Executable()
	n := runtime.NumCPU()
	results := make([]*c03ShardResult, n)
	var wg sync.WaitGroup
	for i := 0; i < n; i++ {
		wg.Add(1)
		go func(i int) {
			defer wg.Done()
			cmd := exec.Command(self, "c03-shard", strconv.Itoa(i), strconv.Itoa(n))
			cmd.Env = append(os.Environ(), "GOMAXPROCS=2")
			out, err := cmd.Output()
			r := &c03ShardResult{}
			if err != nil {
				stderr := ""
				if ee, ok := err.(*exec.ExitError); ok {
					stderr = string(ee.Stderr)
					if len(stderr) > 2000 {
						stderr = stderr[:2000]
					}
				}
				r.Errors = append(r.Errors, fmt.Sprintf("shard %d: %v %s", i, err, stderr))
			} else if err := json.Unmarshal(out, r); err != nil {
				r.Errors = append(r.Errors, fmt.Sprintf("shard %d: bad output: %v", i, err))
			}
			results[i] = r
		}(i)
	}
	wg.Wait()
	var schedules, prefixSchedules int64
	scen, maxp, outc := 0, 0, 0
	for _, r := range results {
		schedules += r.Schedules
		prefixSchedules += r.PrefixSchedules
		scen += r.Scenarios
		outc += r.Outcomes
		if r.MaxPoints > maxp {
			maxp = r.MaxPoints
		}
		if r.Capped {
			run.Exhaustive = false
		}
		for _, e := range r.Errors {
			run.HarnessError("%s", e)
		}
		for _, v := range r.Findings {
			run.Add(v)
		}
		if r.Sample != nil && len(run.Samples) < 2 {
			run.AddSample(r.Sample)
		}
	}
	run.States += int64(scen)
	run.Transitions += schedules
	run.Validated += schedules
	run.Extra["schedules_explored"] = schedules
	if prefixSchedules > 0 {
		run.Extra["of_which_dfs_prefix_on_the_63_node_saturation_tree_not_exhaustive"] = prefixSchedules
	}
	run.Extra["schedule_scenarios"] = scen
	run.Extra["max_scheduling_points_in_one_execution"] = maxp
	run.Extra["distinct_outcomes_summed_over_scenarios"] = outc
	run.Extra["sync_level"] = true
	run.Parts = append(run.Parts, map[string]interface{}{"part": "B: schedules (engine S)", "scenarios": scen, "schedules": schedules,
		"preemption_bound": "2 for <=2 writes (and 3 writes in the thorough tier), 1 for 3 writes (<=5 thorough), 0 for <=5 writes; each with no fault and with each single write failing"})
	run.AddSample(map[string]interface{}{"part_B": "one representative tree per (number of dirty nodes, height, set of node names); MakeRoot runs on an instrumented copy of package mast under a cooperative scheduler; scheduling points: goroutine start, Lock, channel send/receive, WaitGroup.Wait, every Persist.Store",
		"oracle": "at the instant MakeRoot returns nil every reachable node is in the store; a failed write implies an error; no deadlock; no panic; after a failure the tree is intact and a clean retry is complete"})
	run.Rule = "part A: engine F over engine W's closure (failing subsets by node name, retries); part B: engine S, stateless DFS over all schedules up to the preemption bound; every schedule is an execution of the real (instrumented) code"
}
