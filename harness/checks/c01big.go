package checks

import (
	"fmt"
	"sync/atomic"

	"github.com/jrhy/mast"
	"verifharness/explore"
	"verifharness/ref"
	"verifharness/report"
	"verifharness/world"
)

// C01 on the seeded larger trees (the family C15 and C16 measure): 60-240 entries, heights up to
// 6. A non-initial start that the small universes cannot reach: the tree is built by one long
// history (insert order permuted), compared with the model along the way, persisted and reloaded;
// from that state every single operation of the alphabet (insert / update / delete of every key and
// of every absent probe, each on a fresh load) is executed and the whole map compared again; then
// the tree is emptied by a second long history. Any error or panic on the healthy store is a finding.

func c01FullCheck(cfg *world.Config, w *world.World, t *mast.Mast, model map[int]int) string {
	c := w.ReadContents(t)
	if c.Bad != "" {
		return "lookup-failed:" + report.Norm(c.Bad)
	}
	want := world.ModelContents(model)
	if !c.Equal(want) {
		if c.Size != want.Size {
			return "size-or-contents-differ"
		}
		return "contents-differ"
	}
	// iteration: every live entry once, ascending
	var got []int
	r := guardRes(func() error {
		return t.Iter(ctx, func(k, v interface{}) error {
			got = append(got, keyIndex(cfg, k))
			return nil
		})
	})
	if r.Err != nil || r.Panic != nil {
		return "iter-" + resClass(r)
	}
	if len(got) != len(model) {
		return "iter-wrong-count"
	}
	for i := range got {
		if _, ok := model[got[i]]; !ok || (i > 0 && cfg.KS.Cmp(cfg.Key(got[i-1]), cfg.Key(got[i])) >= 0) {
			return "iter-wrong-order-or-entry"
		}
	}
	return ""
}

func bigC01(run *report.Run, acc *pairAcc) {
	specs := []struct {
		bf uint
		n  int
	}{{2, 75}, {3, 100}, {4, 150}, {16, 300}}
	if !run.Thorough() {
		specs = specs[:2]
	}
	var evals int64
	for _, spec := range specs {
		for _, f := range bothFormats {
			cfg := bigCfg(spec.bf, spec.n, f)
			cfg.Vals = []interface{}{"a", "b"}
			bad := func(stage, sym, detail string, hist ...string) {
				acc.add(cfg, "C01", []explore.Finding{{Sig: "C01|seeded-larger-tree|" + stage + "|" + sym, What: "on a larger tree (built by one long history) the map does not behave like the sorted-map model", Detail: detail}}, append([]string{cfg.Name}, hist...))
			}
			w, err := world.New(cfg)
			if err != nil {
				run.HarnessError("%s: %v", cfg.Name, err)
				continue
			}
			t := w.Trees[0]
			model := map[int]int{}
			nk := len(cfg.Keys)
			ok := true
			for j := 0; j < nk && ok; j++ {
				i := (j*37 + 11) % nk
				if _, dup := model[i]; dup {
					continue
				}
				r := guardRes(func() error { return t.Insert(ctx, cfg.Keys[i], cfg.Vals[0]) })
				atomic.AddInt64(&evals, 1)
				if r.Err != nil || r.Panic != nil {
					bad("build", "insert-"+resClass(r), fmt.Sprintf("insert #%d (key %v): %v", j, cfg.Keys[i], r), fmt.Sprintf("%d inserts in permuted order, then insert(%v)", j, cfg.Keys[i]))
					ok = false
					break
				}
				model[i] = 0
				if j%16 == 15 || j == nk-1 {
					if sym := c01FullCheck(cfg, w, t, model); sym != "" {
						bad("build", sym, fmt.Sprintf("after %d inserts", j+1), fmt.Sprintf("%d inserts in permuted order", j+1))
						ok = false
					}
				}
			}
			for i := 0; i < nk && ok; i++ { // keys the permutation missed
				if _, have := model[i]; !have {
					if err := t.Insert(ctx, cfg.Keys[i], cfg.Vals[0]); err != nil {
						bad("build", "insert-error", err.Error())
						ok = false
					}
					model[i] = 0
				}
			}
			if !ok {
				continue
			}
			var root *mast.Root
			r := guardRes(func() (err error) { root, err = t.MakeRoot(ctx); return })
			if r.Err != nil || r.Panic != nil {
				bad("persist", "makeroot-"+resClass(r), fmt.Sprint(r), "all keys inserted, MakeRoot")
				continue
			}
			load := func() (*mast.Mast, *world.World, error) {
				w2 := *w
				store2 := cloneStore(w)
				w2.Store = store2
				t2, err := root.LoadMast(ctx, w2.RemoteConfig(store2, false))
				return t2, &w2, err
			}
			t2, w2, err := load()
			if err != nil {
				bad("reload", "loadmast-error", err.Error(), "all keys inserted, MakeRoot, LoadMast")
				continue
			}
			if sym := c01FullCheck(cfg, w2, t2, model); sym != "" {
				bad("reload", sym, "the reloaded tree differs from the model", "all keys inserted, MakeRoot, LoadMast")
				continue
			}
			// every single operation from the seeded state
			parallelFor(cfg.NAll(), func(i int) {
				for _, op := range []string{"insert-a", "insert-b", "delete", "delete-wrong-value"} {
					t3, w3, err := load()
					if err != nil {
						return
					}
					m3 := map[int]int{}
					for k, v := range model {
						m3[k] = v
					}
					_, present := model[i]
					var r world.Res
					switch op {
					case "insert-a", "insert-b":
						vi := int(op[len(op)-1] - 'a')
						r = guardRes(func() error { return t3.Insert(ctx, cfg.Key(i), cfg.Vals[vi]) })
						if r.Err == nil && r.Panic == nil {
							m3[i] = vi
						}
					case "delete":
						r = guardRes(func() error { return t3.Delete(ctx, cfg.Key(i), cfg.Vals[0]) })
						if present {
							delete(m3, i)
						}
					default:
						r = guardRes(func() error { return t3.Delete(ctx, cfg.Key(i), cfg.Vals[1]) })
					}
					atomic.AddInt64(&evals, 1)
					desc := fmt.Sprintf("all keys inserted, MakeRoot, LoadMast, %s(%v)", op, cfg.Key(i))
					cls := "absent-key"
					if present {
						cls = "present-key"
					}
					wantErr := (op == "delete" && !present) || op == "delete-wrong-value"
					switch {
					case r.Panic != nil:
						bad("one-operation", op+"|"+cls+"|panic", fmt.Sprint(r.Panic), desc)
						continue
					case wantErr && r.Err == nil:
						bad("one-operation", op+"|"+cls+"|no-error", "a delete of an absent key / with a non-matching value succeeded", desc)
					case !wantErr && r.Err != nil:
						bad("one-operation", op+"|"+cls+"|error", r.Err.Error(), desc)
						continue
					}
					if sym := c01FullCheck(cfg, w3, t3, m3); sym != "" {
						bad("one-operation", op+"|"+cls+"|"+sym, "the map differs from the model after the operation", desc)
					}
				}
			})
			// empty the reloaded tree by a second long history
			for j := 0; j < nk; j++ {
				i := (j*53 + 7) % nk
				if _, have := model[i]; !have {
					continue
				}
				r := guardRes(func() error { return t2.Delete(ctx, cfg.Keys[i], cfg.Vals[0]) })
				atomic.AddInt64(&evals, 1)
				if r.Err != nil || r.Panic != nil {
					bad("empty", "delete-"+resClass(r), fmt.Sprintf("delete #%d (key %v): %v", j, cfg.Keys[i], r), fmt.Sprintf("reloaded, %d deletes in permuted order, then delete(%v)", j, cfg.Keys[i]))
					ok = false
					break
				}
				delete(model, i)
				if j%16 == 15 {
					if sym := c01FullCheck(cfg, w2, t2, model); sym != "" {
						bad("empty", sym, fmt.Sprintf("after %d deletes", j+1), fmt.Sprintf("reloaded, %d deletes in permuted order", j+1))
						ok = false
						break
					}
				}
			}
			if ok {
				for i := range model { // keys the permutation missed
					if err := t2.Delete(ctx, cfg.Keys[i], cfg.Vals[0]); err != nil {
						bad("empty", "delete-error", err.Error())
					}
					delete(model, i)
				}
				if sym := c01FullCheck(cfg, w2, t2, model); sym != "" {
					bad("empty", "emptied|"+sym, "the emptied tree differs from the empty model", "reloaded, every key deleted")
				}
			}
			run.Parts = append(run.Parts, map[string]interface{}{"part": "seeded larger tree", "config": cfg.Name, "entries": nk, "height": root.Height,
				"single_operations_from_the_seeded_state": 4 * cfg.NAll()})
		}
	}
	run.Extra["operations_on_seeded_larger_trees"] = evals
	_ = ref.FormatBinary
}
