package checks

import (
	"fmt"
	"sync/atomic"

	"github.com/jrhy/mast"
	"verifharness/explore"
	"verifharness/ref"
	"verifharness/report"
	"verifharness/world"
)

// c10Mon: cursor and seek navigation against the sorted key sequence. Runs as a
// state observer: for every reachable tree state, every placement and every
// sequence of Forward/Backward steps (a small BFS of its own, de-duplicated on
// the dumped cursor path), plus SeekIter from every probe.
type c10Mon struct {
	explore.NopMonitor
	cursorOps int64
	seqs      int64
}

type c10Start struct {
	kind string // Min | Max | Ceil
	k    int
}

func (m *c10Mon) OnState(w *world.World, hist []world.Op) []explore.Finding {
	var out []explore.Finding
	cfg := w.Cfg
	t := w.Trees[0]
	c := w.ReadContents(t)
	if c.Bad != "" {
		return nil
	}
	keys := sortedKeys(c.M) // ascending positions -> key index
	n := len(keys)
	cls := "nonempty"
	if n == 0 {
		cls = treeClass(nil, hist, 0)
	}
	seenSig := map[string]bool{}
	add := func(f explore.Finding) {
		if !seenSig[f.Sig] {
			seenSig[f.Sig] = true
			out = append(out, f)
		}
	}
	starts := []c10Start{{"Min", 0}, {"Max", 0}}
	for i := 0; i < cfg.NAll(); i++ {
		starts = append(starts, c10Start{"Ceil", i})
	}
	for _, st := range starts {
		startPos := 0
		startName := st.kind
		switch st.kind {
		case "Max":
			startPos = n - 1
		case "Ceil":
			startPos = n
			for p, ki := range keys {
				if cfg.KS.Cmp(cfg.Key(ki), cfg.Key(st.k)) >= 0 {
					startPos = p
					break
				}
			}
			if _, present := c.M[st.k]; present {
				startName = "Ceil-present"
			} else {
				startName = "Ceil-absent"
			}
		}
		// run executes placement + seq on a fresh cursor; returns the cursor and the first failure
		run := func(seq []byte) (cur *mast.Cursor, fail string) {
			r := guardRes(func() (err error) { cur, err = t.Cursor(ctx); return })
			atomic.AddInt64(&m.cursorOps, 1)
			if r.Err != nil || r.Panic != nil {
				return nil, "Cursor|" + resClass(r)
			}
			r = guardRes(func() error {
				switch st.kind {
				case "Min":
					return cur.Min(ctx)
				case "Max":
					return cur.Max(ctx)
				}
				return cur.Ceil(ctx, cfg.Key(st.k))
			})
			atomic.AddInt64(&m.cursorOps, 1)
			if r.Err != nil || r.Panic != nil {
				return nil, st.kind + "|" + resClass(r)
			}
			for _, s := range seq {
				r = guardRes(func() error {
					if s == 'F' {
						return cur.Forward(ctx)
					}
					return cur.Backward(ctx)
				})
				atomic.AddInt64(&m.cursorOps, 1)
				if r.Err != nil || r.Panic != nil {
					name := "Forward"
					if s == 'B' {
						name = "Backward"
					}
					return nil, name + "|" + resClass(r)
				}
			}
			return cur, ""
		}
		// check compares Get with the model position
		check := func(cur *mast.Cursor, pos int, seq []byte) bool {
			var k, v interface{}
			var ok bool
			r := guardRes(func() error { k, v, ok = cur.Get(); return nil })
			last := "placement"
			if len(seq) > 0 {
				last = map[byte]string{'F': "Forward", 'B': "Backward"}[seq[len(seq)-1]]
			}
			if r.Panic != nil {
				add(explore.Finding{Sig: fmt.Sprintf("C10|%s|%s|after-%s|Get-%s", startName, cls, last, resClass(r)), What: "Cursor.Get panicked", Detail: fmt.Sprintf("start %s(%v) steps %s: %v", st.kind, cfg.Key(st.k), seq, r.Panic)})
				return false
			}
			// the cursor's own description of where it is (no call on a cursor panics, wherever it stands:
			// on a tree without entries, below a node without keys)
			if r := guardRes(func() error { _ = cur.String(); return nil }); r.Panic != nil {
				add(explore.Finding{Sig: fmt.Sprintf("C10|%s|%s|after-%s|String-%s", startName, cls, last, resClass(r)), What: "Cursor.String panicked", Detail: fmt.Sprintf("start %s(%v) steps %s: %v", st.kind, cfg.Key(st.k), seq, r.Panic)})
				return false
			}
			wantOK := pos >= 0 && pos < n
			if ok != wantOK {
				add(explore.Finding{Sig: fmt.Sprintf("C10|%s|%s|after-%s|entry-presence-wrong(want-%v)", startName, cls, last, wantOK), What: "cursor reports 'no entry' / an entry at the wrong time",
					Detail: fmt.Sprintf("start %s(%v) steps %s: position %d of %d, Get ok=%v key=%v", st.kind, cfg.Key(st.k), seq, pos, n, ok, k)})
				return false
			}
			if ok {
				if cfg.KS.Cmp(k, cfg.Key(keys[pos])) != 0 || cfg.ValIndex(v) != c.M[keys[pos]] {
					add(explore.Finding{Sig: fmt.Sprintf("C10|%s|%s|after-%s|wrong-entry", startName, cls, last), What: "cursor is not at the entry the sorted key sequence gives",
						Detail: fmt.Sprintf("start %s(%v) steps %s: want key %v, got %v=%v", st.kind, cfg.Key(st.k), seq, cfg.Key(keys[pos]), k, v)})
					return false
				}
			}
			return true
		}
		cur, fail := run(nil)
		atomic.AddInt64(&m.seqs, 1)
		if fail != "" {
			add(explore.Finding{Sig: fmt.Sprintf("C10|%s|%s|%s", startName, cls, fail), What: "cursor placement failed on a healthy tree", Detail: fmt.Sprintf("start %s(%v): %s", st.kind, cfg.Key(st.k), fail)})
			continue
		}
		if !check(cur, startPos, nil) {
			continue
		}
		if n == 0 {
			// empty trees: no call may panic or fail, whatever is called next, and there is never an entry
			for _, seq := range [][]byte{{'F'}, {'B'}, {'F', 'F'}, {'F', 'B'}, {'B', 'F'}, {'B', 'B'}} {
				cur, fail := run(seq)
				atomic.AddInt64(&m.seqs, 1)
				if fail != "" {
					add(explore.Finding{Sig: fmt.Sprintf("C10|%s|%s|%s", startName, cls, fail), What: "a cursor call failed or panicked on an empty tree", Detail: fmt.Sprintf("start %s(%v) steps %s: %s", st.kind, cfg.Key(st.k), seq, fail)})
					continue
				}
				check(cur, -1, seq)
			}
			continue
		}
		if startPos < 0 || startPos >= n {
			continue // off an end of a non-empty tree: behaviour afterwards is not specified
		}
		type item struct {
			seq []byte
			pos int
		}
		dumpOf := func(cur *mast.Cursor, seq []byte) string {
			if !world.HookAvailable {
				return string(seq)
			}
			d := world.NewDumper(true)
			d.Cursor(cur)
			return d.String()
		}
		seen := map[string]bool{dumpOf(cur, nil): true}
		queue := []item{{nil, startPos}}
		maxLen := 2*n + 2
		for len(queue) > 0 {
			it := queue[0]
			queue = queue[1:]
			for _, s := range []byte{'F', 'B'} {
				seq := append(append([]byte{}, it.seq...), s)
				pos := it.pos + 1
				if s == 'B' {
					pos = it.pos - 1
				}
				cur, fail := run(seq)
				atomic.AddInt64(&m.seqs, 1)
				if fail != "" {
					add(explore.Finding{Sig: fmt.Sprintf("C10|%s|%s|%s", startName, cls, fail), What: "cursor step failed on a healthy tree", Detail: fmt.Sprintf("start %s(%v) steps %s: %s", st.kind, cfg.Key(st.k), seq, fail)})
					continue
				}
				if !check(cur, pos, seq) {
					continue
				}
				if pos < 0 || pos >= n {
					continue
				}
				key := dumpOf(cur, seq)
				if seen[key] {
					continue
				}
				if !world.HookAvailable && len(seq) >= maxLen {
					continue
				}
				seen[key] = true
				queue = append(queue, item{seq, pos})
			}
		}
	}
	// SeekIter from every probe, with early stop at every position
	for i := 0; i < cfg.NAll(); i++ {
		var want []int
		for _, ki := range keys {
			if cfg.KS.Cmp(cfg.Key(ki), cfg.Key(i)) >= 0 {
				want = append(want, ki)
			}
		}
		probeCls := "absent-probe"
		if _, ok := c.M[i]; ok {
			probeCls = "present-probe"
		}
		for stop := -1; stop < len(want); stop++ {
			var got []int
			calls := 0
			r := guardRes(func() error {
				return t.SeekIter(ctx, cfg.Key(i), func(k, v interface{}) error {
					calls++
					got = append(got, keyIndex(cfg, k))
					if stop >= 0 && calls > stop {
						return mast.ErrIterDone
					}
					return nil
				})
			})
			exp := want
			if stop >= 0 {
				exp = want[:stop+1]
			}
			bad := r.Err != nil || r.Panic != nil || len(got) != len(exp)
			if !bad {
				for j := range exp {
					if got[j] != exp[j] {
						bad = true
					}
				}
			}
			if bad {
				stopCls := "full"
				if stop >= 0 {
					stopCls = "stopped"
				}
				sym := resClass(r)
				if sym == "ok" {
					switch {
					case len(got) < len(exp):
						sym = "entries-missing"
					case len(got) > len(exp):
						sym = "extra-or-duplicate-entries"
					default:
						sym = "wrong-entries"
					}
				}
				add(explore.Finding{Sig: fmt.Sprintf("C10|SeekIter|%s|%s|%s|%s", probeCls, cls, stopCls, sym), What: "SeekIter does not yield exactly the entries with keys >= the probe, ascending, once each",
					Detail: fmt.Sprintf("probe %v stop=%d: got key indexes %v, want %v (%v)", cfg.Key(i), stop, got, exp, r)})
				break
			}
		}
	}
	out = append(out, m.staleCursor(w, hist, c, keys, cls)...)
	return out
}

// staleCursor: a cursor is a view of the tree as it was when the cursor was opened. For every
// single modification of the tree made after opening the cursor (before or after placing it),
// a walk over the cursor still visits exactly the sorted entries of that earlier tree.
func (m *c10Mon) staleCursor(w *world.World, hist []world.Op, c world.Contents, keys []int, cls string) []explore.Finding {
	cfg := w.Cfg
	var out []explore.Finding
	seen := map[string]bool{}
	var muts []world.Op
	for k := 0; k < len(cfg.Keys); k++ {
		for v := 0; v < len(cfg.Vals); v++ {
			if old, ok := c.M[k]; !ok || old != v {
				muts = append(muts, world.Op{Kind: world.OpIns, K: k, V: v})
			}
		}
		if _, ok := c.M[k]; ok {
			muts = append(muts, world.Op{Kind: world.OpDel, K: k, V: c.M[k]})
		}
	}
	n := len(keys)
	for _, mu := range muts {
		for _, placeFirst := range []bool{false, true} {
			for _, dir := range []string{"Min-Forward", "Max-Backward"} {
				w2, err := explore.Replay(cfg, hist, true)
				if err != nil {
					continue
				}
				t := w2.Trees[0]
				var cur *mast.Cursor
				var got []int
				bad := ""
				place := func() error {
					if dir == "Min-Forward" {
						return cur.Min(ctx)
					}
					return cur.Max(ctx)
				}
				r := guardRes(func() (err error) {
					if cur, err = t.Cursor(ctx); err != nil {
						return err
					}
					if placeFirst {
						if err = place(); err != nil {
							return err
						}
					}
					if res := w2.Apply(mu); res.Err != nil || res.Panic != nil {
						bad = "modification failed"
						return nil
					}
					if !placeFirst {
						if err = place(); err != nil {
							return err
						}
					}
					for steps := 0; steps <= n+1; steps++ {
						k, v, ok := cur.Get()
						if !ok {
							return nil
						}
						ki := keyIndex(cfg, k)
						if ki < 0 || cfg.ValIndex(v) != c.M[ki] {
							ki = -1 - steps
						}
						got = append(got, ki)
						if dir == "Min-Forward" {
							err = cur.Forward(ctx)
						} else {
							err = cur.Backward(ctx)
						}
						if err != nil {
							return err
						}
					}
					return nil
				})
				atomic.AddInt64(&m.cursorOps, int64(len(got)+2))
				atomic.AddInt64(&m.seqs, 1)
				if bad != "" {
					continue
				}
				want := append([]int{}, keys...)
				if dir == "Max-Backward" {
					for i, j := 0, len(want)-1; i < j; i, j = i+1, j-1 {
						want[i], want[j] = want[j], want[i]
					}
				}
				ok := r.Err == nil && r.Panic == nil && len(got) == len(want)
				if ok {
					for i := range want {
						if got[i] != want[i] {
							ok = false
						}
					}
				}
				if ok {
					continue
				}
				when := "modified-before-placing"
				if placeFirst {
					when = "modified-after-placing"
				}
				sig := fmt.Sprintf("C10|cursor-opened-earlier|%s|%s|%s|%s|%s", cls, opKindName(mu), when, dir, resClass(r))
				if !seen[sig] {
					seen[sig] = true
					out = append(out, explore.Finding{Sig: sig, What: "a cursor opened before a modification of the tree does not walk the sorted entries the tree had when the cursor was opened",
						Detail: fmt.Sprintf("cursor opened, then %s, walk %s: visited key indexes %v, want %v (%v)", cfg.Describe(mu), dir, got, want, r)})
				}
			}
		}
	}
	return out
}

func C10Configs(thorough bool) []*world.Config {
	B, M := ref.FormatBinary, ref.FormatMarshaler
	var cs []*world.Config
	cs = append(cs, world.UintCfg(2, urange(1, 5), 1, B, "none"))
	cs = append(cs, world.UintCfg(3, ulist(1, 2, 3, 4, 5, 6, 9), 1, B, "none"))
	cs = append(cs, world.Wide(world.UintCfg(2, urange(1, 5), 1, M, "none")))
	cs = append(cs, world.UintCfg(4, ulist(1, 2, 3, 4, 5, 8, 16), 1, M, "none"))
	for _, l := range lkeyQuick {
		cs = append(cs, world.LKeyCfg(2, l, 1, B, "none"))
	}
	im := world.IntCfg(16, []int{1, 2, 3, 16, 32}, []interface{}{"a"}, "", B, "none")
	im.InMemory = true
	im.Name = "inmemory/" + im.Name
	cs = append(cs, im)
	cs = append(cs, world.UintCfg(2, ulist(1, 2, 4), 1, B, "big"))
	cs = append(cs, ChainSeeded(B, 2))
	cs = append(cs, Seeded16(M, 2))
	if thorough {
		cs = append(cs, world.UintCfg(2, urange(0, 8), 1, B, "none"))
		cs = append(cs, world.UintCfg(3, ulist(1, 2, 3, 4, 5, 6, 7, 8, 9, 12, 18), 1, B, "none"))
		cs = append(cs, world.StringCfg(2, []uint8{0, 1, 0, 2, 0}, M, "none"))
		for _, l := range allLayerAssignments(5, 3) {
			cs = append(cs, world.LKeyCfg(2, l, 1, B, "none"))
		}
	}
	return cs
}

func C10(run *report.Run) {
	var mons []*c10Mon
	runSingle(run, "C10", C10Configs(run.Thorough()), func(*world.Config) explore.Monitor {
		m := &c10Mon{}
		mons = append(mons, m)
		return m
	}, stdOps)
	swallowedFaultPass(run, "C10", "SeekIter", "CursorMin", "CursorMax", "CursorCeil", "CursorMinFwd", "CursorMaxBack", "CursorCeilFwd", "CursorCeilBack")
	var ops, seqs int64
	for _, m := range mons {
		ops += m.cursorOps
		seqs += m.seqs
	}
	run.Extra["cursor_operations_executed"] = ops
	run.Extra["cursor_step_sequences"] = seqs
	run.Rule = ruleSingle + "; in every reachable tree state: cursor placed by Min, Max and Ceil(p) for every universe key and absent probe, then every Forward/Backward step sequence (inner BFS de-duplicated on the dumped cursor path, branches end when stepping off an end), and SeekIter(p) for every probe with early stop at every position; oracle = position in the sorted key list"
}

func opKindName(o world.Op) string {
	if o.Kind == world.OpIns {
		return "insert"
	}
	return "delete"
}
