// Package checks holds one oracle ("monitor") per property plus the drivers that
// enumerate configurations and feed results into a report.Run.
package checks

import (
	"context"
	"fmt"
	"sort"
	"time"

	"github.com/jrhy/mast"
	"verifharness/explore"
	"verifharness/ref"
	"verifharness/report"
	"verifharness/world"
)

var ctx = context.Background()

// SingleOps is the single-tree alphabet: ins/del over keys x values, persist, reload.
func SingleOps(cfg *world.Config, persist bool, extra ...world.Op) []world.Op {
	var ops []world.Op
	for k := range cfg.Keys {
		for v := range cfg.Vals {
			ops = append(ops, world.Op{Kind: world.OpIns, K: k, V: v})
		}
	}
	for k := range cfg.Keys {
		for v := range cfg.Vals {
			ops = append(ops, world.Op{Kind: world.OpDel, K: k, V: v})
		}
	}
	// a delete of a never-inserted probe key
	if len(cfg.Probes) > 0 {
		ops = append(ops, world.Op{Kind: world.OpDel, K: len(cfg.Keys), V: 0})
	}
	if persist && !cfg.InMemory {
		ops = append(ops, world.Op{Kind: world.OpPersist}, world.Op{Kind: world.OpReload})
		ops = append(ops, FlushFaultOps(cfg, 0)...)
	}
	// continue on a clone of the tree (the original is dropped)
	ops = append(ops, world.Op{Kind: world.OpClone, A: 0, B: 0})
	if cfg.Cache != "none" && cfg.Cache != "" && !cfg.InMemory {
		// with a cache attached, reads populate it: they are transitions
		ops = append(ops, world.Op{Kind: world.OpIter})
		for k := range cfg.Keys {
			ops = append(ops, world.Op{Kind: world.OpGet, K: k})
		}
	}
	return append(ops, extra...)
}

// treeClass is the coarse structural class used in signatures.
func treeClass(model map[int]int, hist []world.Op, slot int) string {
	if len(model) > 0 {
		return "nonempty"
	}
	for _, op := range hist {
		if op.Kind == world.OpIns {
			return "emptied"
		}
	}
	return "never-populated"
}

func resClass(r world.Res) string {
	if r.Panic != nil {
		return "panic:" + report.Norm(fmt.Sprint(r.Panic))
	}
	if r.Err != nil {
		return "error:" + report.Norm(r.Err.Error())
	}
	return "ok"
}

// runExplorer runs one exploration and folds its result into the run.
func runExplorer(run *report.Run, check string, e *explore.Explorer) {
	t0 := time.Now()
	e.Run()
	if e.HarnessErr != nil {
		run.HarnessError("%s: %v", e.Cfg.Name, e.HarnessErr)
	}
	run.States += e.States
	run.Transitions += e.Transitions
	run.Validated += e.Transitions
	if !e.Exhaustive && !e.BoundDone {
		run.Exhaustive = false // a state cap was hit: this configuration is not fully covered
	}
	run.Parts = append(run.Parts, map[string]interface{}{
		"config": e.Cfg.Name, "states": e.States, "transitions": e.Transitions, "self_loops": e.NoOps,
		"depth": e.Depth, "closed": e.Exhaustive, "stopped_at_the_closure_depth_cap": e.DepthCapHit, "all_histories_up_to_depth_bound": e.BoundDone, "blocked": e.Blocked, "alphabet": len(e.Ops),
		"findings": len(e.Findings), "wall_s": time.Since(t0).Seconds(), "dedup": world.HookAvailable,
	})
	if len(run.Samples) < 6 && len(e.SampleHists) > 0 {
		h := e.SampleHists[len(e.SampleHists)-1]
		run.AddSample(map[string]interface{}{"config": e.Cfg.Name, "one_of_the_deepest_states_reached_by": e.Cfg.DescribeHist(h),
			"explored_from_it": fmt.Sprintf("all %d operations of the alphabet", len(e.Ops))})
	}
	sigs := make([]string, 0, len(e.Findings))
	for s := range e.Findings {
		sigs = append(sigs, s)
	}
	sort.Strings(sigs)
	for _, s := range sigs {
		f := e.Findings[s]
		run.Add(report.Violation{Sig: f.Sig, What: f.What, Detail: f.Detail, Config: f.Config, Check: check,
			History: e.Cfg.DescribeHist(f.Hist), Replay: map[string]interface{}{"config": f.Config, "ops": f.Hist}, Count: f.Count,
			GoTest: GoTestFor(e.Cfg, f.Hist, f.Sig, f.What, f.Detail)})
	}
}

// iterAll runs a full Iter collecting (key index, value index) pairs.
func iterAll(cfg *world.Config, m *mast.Mast, stopAfter int) (keys []int, vals []int, calls int, res world.Res) {
	res = guardRes(func() error {
		return m.Iter(ctx, func(k, v interface{}) error {
			calls++
			keys = append(keys, keyIndex(cfg, k))
			vals = append(vals, cfg.ValIndex(v))
			if stopAfter >= 0 && calls > stopAfter {
				return mast.ErrIterDone
			}
			return nil
		})
	})
	return
}

func guardRes(f func() error) (r world.Res) {
	defer func() {
		if p := recover(); p != nil {
			r.Panic = p
		}
	}()
	r.Err = f()
	return
}

func keyIndex(cfg *world.Config, k interface{}) int {
	for i := 0; i < cfg.NAll(); i++ {
		if func() (eq bool) {
			defer func() { recover() }()
			return cfg.KS.Cmp(cfg.Key(i), k) == 0
		}() {
			return i
		}
	}
	return -1
}

func sortedKeys(m map[int]int) []int {
	ks := make([]int, 0, len(m))
	for k := range m {
		ks = append(ks, k)
	}
	sort.Ints(ks)
	return ks
}

// entriesOf converts contents to reference entries (sorted; Config.Keys is ascending).
func entriesOf(cfg *world.Config, c world.Contents) []ref.Entry {
	var es []ref.Entry
	for _, k := range sortedKeys(c.M) {
		if k >= len(cfg.Keys) {
			continue
		}
		var v interface{}
		if c.M[k] >= 0 {
			v = cfg.Vals[c.M[k]]
		}
		es = append(es, ref.Entry{K: cfg.Keys[k], V: v})
	}
	return es
}

// FlushFaultOps: the failing-MakeRoot part of the alphabet for one tree slot (empty unless the configuration asks for it).
func FlushFaultOps(cfg *world.Config, slot int) []world.Op {
	if !cfg.FlushFaults || cfg.InMemory {
		return nil
	}
	var ops []world.Op
	for _, v := range []int{0, 1, 2, 10, 11, 12, 14} {
		ops = append(ops, world.Op{Kind: world.OpPersistFail, A: slot, V: v})
	}
	return ops
}
