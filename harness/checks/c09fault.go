package checks

import (
	"fmt"
	"strings"
	"sync/atomic"

	"github.com/jrhy/mast"
	"verifharness/explore"
	"verifharness/ref"
	"verifharness/report"
	"verifharness/world"
)

// C09 part B: histories that contain a *failed* operation. From every state of the
// closure, every Insert/Delete runs with each of its Persist.Load calls failing (struct keys: each
// marshal call, i.e. each key-layer / key-order computation; counting comparator: each KeyCompare call); whatever
// the operation returned, the fault then clears and the tree is persisted: the persisted
// version must still satisfy the shape invariants (in particular the recorded size).
func c09FaultHistories(run *report.Run) {
	faultHistories(run, "C09", func(cfg *world.Config, w *world.World, t *mast.Mast, root *mast.Root) (string, string) {
		sn, err := codecFor(cfg).Walk(cfg.KS, storeGet(w.Store), linkOf(root), nil)
		if err != nil {
			return "", ""
		}
		if bad := ref.CheckShape(cfg.KS, sn, cfg.BF, int(root.Height), root.Size); len(bad) > 0 {
			return bad[0][:strings.Index(bad[0], ":")], strings.Join(bad, "; ")
		}
		return "", ""
	}, "breaks shape invariant")
}

// c04FaultHistories: the same histories judged by the canonical-form oracle: whatever a faulted operation
// returned, the root persisted afterwards is the canonical root of the entries the tree then holds.
func c04FaultHistories(run *report.Run) {
	faultHistories(run, "C04", func(cfg *world.Config, w *world.World, t *mast.Mast, root *mast.Root) (string, string) {
		c := w.ReadContents(t)
		if c.Bad != "" {
			return "", ""
		}
		es := entriesOf(cfg, c)
		H := ref.CanonHeight(cfg.KS, es, cfg.BF)
		want, err := codecFor(cfg).Encode(ref.BuildCanon(cfg.KS, es, cfg.BF, H), nil)
		if err != nil {
			return "", ""
		}
		var diffs []string
		if int(root.Height) != H {
			diffs = append(diffs, "height")
		}
		if root.Size != uint64(len(es)) {
			diffs = append(diffs, "size")
		}
		if linkOf(root) != want {
			diffs = append(diffs, "link")
		}
		if len(diffs) == 0 {
			return "", ""
		}
		return strings.Join(diffs, "+"), fmt.Sprintf("contents %v: got Link=%q Height=%d Size=%d, canonical Link=%q Height=%d Size=%d", c, linkOf(root), root.Height, root.Size, want, H, len(es))
	}, "is not the canonical root of the tree's entries:")
}

// faultHistories: see above. judge returns (clause, detail) for a persisted root, "" if it is fine.
func faultHistories(run *report.Run, check string, judge func(cfg *world.Config, w *world.World, t *mast.Mast, root *mast.Root) (string, string), what string) {
	B, M := ref.FormatBinary, ref.FormatMarshaler
	cc := func(c *world.Config) *world.Config { c.CustomCompare = true; c.Name += "/countingcompare"; return c }
	cfgs := []*world.Config{world.UintCfg(2, urange(1, 5), 1, B, "none"), world.UintCfg(4, ulist(1, 2, 3, 4, 5, 8), 1, M, "none"), world.LKeyCfg(2, []uint8{0, 2, 0, 1, 0}, 1, B, "none"),
		// struct keys: layers and order go through the marshaler, which can fail in the middle of an operation
		world.StructCfg(4, []uint8{1, 0, 0, 0, 0, 0}, B, "none"), world.StructCfg(2, []uint8{0, 1, 0, 2}, M, "none"), cc(world.UintCfg(2, urange(1, 4), 1, M, "none"))}
	if run.Thorough() {
		cfgs = append(cfgs, world.UintCfg(2, urange(0, 8), 1, B, "none"), world.UintCfg(3, ulist(1, 2, 3, 4, 6, 9), 1, B, "none"))
	}
	acc := &pairAcc{}
	var evals, failed int64
	for _, cfg := range cfgs {
		hists := closureStatesBounded(run, check, cfg)
		parallelFor(len(hists), func(hi int) {
			hist := hists[hi]
			for k := range cfg.Keys {
				for _, kind := range []string{"Insert", "Delete"} {
					// 0-deviation run: how many loads does the op make?
					w, err := explore.Replay(cfg, hist, true)
					if err != nil {
						return
					}
					t := w.Trees[0]
					do := func(t *mast.Mast) error {
						if kind == "Insert" {
							return t.Insert(ctx, cfg.FreshKey(k), cfg.FreshVal(0))
						}
						return t.Delete(ctx, cfg.FreshKey(k), cfg.FreshVal(0))
					}
					w.Store.ResetLog()
					w.Cmp.Reset()
					w.Msh.Reset()
					guardRes(func() error { return do(t) })
					type fault struct {
						kind string
						i    int
					}
					var faults []fault
					for i := 0; i < w.Store.NLoad; i++ {
						faults = append(faults, fault{"Load", i})
					}
					if cfg.KS.Name == "struct" {
						for i := 0; i < w.Msh.N; i++ {
							faults = append(faults, fault{"Marshal", i})
						}
					}
					if cfg.CustomCompare {
						for i := 0; i < w.Cmp.N; i++ {
							faults = append(faults, fault{"KeyCompare", i})
						}
					}
					for _, f := range faults {
						i := f.i
						w, err := explore.Replay(cfg, hist, true)
						if err != nil {
							return
						}
						t := w.Trees[0]
						w.Store.ResetLog()
						w.Cmp.Reset()
						w.Msh.Reset()
						switch f.kind {
						case "Load":
							w.Store.FailLoadAt = map[int]bool{i: true}
						case "Marshal":
							w.Msh.FailAt = map[int]bool{i: true}
						case "KeyCompare":
							w.Cmp.FailAt = map[int]bool{i: true}
						}
						r := guardRes(func() error { return do(t) })
						w.Store.ClearFaults()
						w.Cmp.Reset()
						w.Msh.Reset()
						atomic.AddInt64(&evals, 1)
						if r.Panic != nil {
							continue
						}
						if r.Err != nil {
							atomic.AddInt64(&failed, 1)
						}
						// persisted right away, and again after the same operation was retried with the fault gone
						for _, step := range []string{"then MakeRoot", "then the same call again, then MakeRoot"} {
							if step != "then MakeRoot" {
								if r.Err == nil {
									break // the faulted call had succeeded: nothing to retry
								}
								guardRes(func() error { return do(t) })
							}
							var root *mast.Root
							rr := guardRes(func() (err error) { root, err = t.MakeRoot(ctx); return })
							if rr.Err != nil || rr.Panic != nil {
								break // judged by C03/C12
							}
							if clause, detail := judge(cfg, w, t, root); clause != "" {
								acc.add(cfg, check, []explore.Finding{{Sig: check + "|after-failed-" + kind + "|" + clause, What: "a version persisted after an operation failed on an injected fault " + what + " '" + clause + "'", Detail: detail}},
									append(cfg.DescribeHist(hist), fmt.Sprintf("%s(%v) with its %s #%d failing -> %v; %s", kind, cfg.Keys[k], f.kind, i, r, step)))
								break
							}
						}
					}
				}
			}
		})
		run.Parts = append(run.Parts, map[string]interface{}{"part": "B: histories containing a failed operation", "config": cfg.Name, "pre_states": len(hists)})
	}
	acc.flush(run)
	run.Transitions += evals
	run.Validated += evals
	run.Extra["fault_history_executions"] = evals
	run.Extra["fault_history_operations_that_returned_an_error"] = failed
}
