package checks

import (
	"context"
	"errors"
	"fmt"
	"runtime"
	"sort"
	"sync"
	"sync/atomic"

	"github.com/jrhy/mast"
	"verifharness/env"
	"verifharness/explore"
	"verifharness/ref"
	"verifharness/report"
	"verifharness/world"
)

// ---------- common: building the set of reachable single-tree states ----------

// builtState is one reachable state materialised in its own world.
type builtState struct {
	hist []world.Op
	w    *world.World
	t    *mast.Mast
	c    world.Contents
	key  string
}

// closureStates explores the single-tree closure of cfg and materialises every state.
func closureStates(run *report.Run, check string, cfg *world.Config) []*builtState {
	e := &explore.Explorer{Cfg: cfg, Ops: SingleOps(cfg, true), Mon: explore.NopMonitor{}, Reduced: true, KeepHists: true, MaxDepth: cfg.MaxDepth, MaxStates: 200000}
	if !world.HookAvailable {
		e.MaxDepth = 2
	}
	e.Run()
	if e.HarnessErr != nil {
		run.HarnessError("%s: %v", cfg.Name, e.HarnessErr)
		return nil
	}
	if !e.Exhaustive && !e.BoundDone {
		run.Exhaustive = false
	}
	out := make([]*builtState, len(e.Hists))
	parallelFor(len(e.Hists), func(i int) {
		w, err := explore.Replay(cfg, e.Hists[i], true)
		if err != nil {
			return
		}
		if w.Store != nil {
			w.Store.StopLog()
		}
		out[i] = &builtState{hist: e.Hists[i], w: w, t: w.Trees[0], c: w.ReadContents(w.Trees[0]), key: w.StateKey("")}
	})
	var res []*builtState
	for _, b := range out {
		if b != nil && b.c.Bad == "" {
			res = append(res, b)
		}
	}
	run.Parts = append(run.Parts, map[string]interface{}{"config": cfg.Name, "base_states": len(res), "closed": e.Exhaustive, "depth": e.Depth})
	return res
}

func parallelFor(n int, f func(i int)) {
	var next int64 = -1
	var wg sync.WaitGroup
	for wk := 0; wk < runtime.NumCPU(); wk++ {
		wg.Add(1)
		go func() {
			defer wg.Done()
			for {
				i := int(atomic.AddInt64(&next, 1))
				if i >= n {
					return
				}
				f(i)
			}
		}()
	}
	wg.Wait()
}

// ---------- C06: entry diff ----------

type diffRec struct {
	k          int // key index
	typ        string
	oldV, newV int
}

func (d diffRec) String() string { return fmt.Sprintf("%s(k%d,%d->%d)", d.typ, d.k, d.oldV, d.newV) }

// expectedDiff is the merge of two contents.
func expectedDiff(oldC, newC world.Contents) []diffRec {
	seen := map[int]bool{}
	var ks []int
	for k := range oldC.M {
		if !seen[k] {
			seen[k] = true
			ks = append(ks, k)
		}
	}
	for k := range newC.M {
		if !seen[k] {
			seen[k] = true
			ks = append(ks, k)
		}
	}
	sort.Ints(ks)
	var out []diffRec
	for _, k := range ks {
		ov, inOld := oldC.M[k]
		nv, inNew := newC.M[k]
		switch {
		case inOld && !inNew:
			out = append(out, diffRec{k, "remove", ov, -2})
		case !inOld && inNew:
			out = append(out, diffRec{k, "add", -2, nv})
		case ov != nv:
			out = append(out, diffRec{k, "change", ov, nv})
		}
	}
	return out
}

func valIdx(cfg *world.Config, v interface{}, present bool) int {
	if !present {
		if v != nil {
			return -3 // a value reported where none belongs
		}
		return -2
	}
	return cfg.ValIndex(v)
}

// observeDiffIter runs DiffIter; stopAt/errAt >= 0 make the callback stop / fail at that call index.
func observeDiffIter(cfg *world.Config, newT, oldT *mast.Mast, stopAt, errAt int) (recs []diffRec, calls int, res world.Res) {
	cbErr := errors.New("verif: callback error")
	res = guardRes(func() error {
		return newT.DiffIter(ctx, oldT, func(added, removed bool, key, addedValue, removedValue interface{}) (bool, error) {
			i := calls
			calls++
			typ := "change"
			switch {
			case added && removed:
				typ = "added+removed"
			case added:
				typ = "add"
			case removed:
				typ = "remove"
			}
			recs = append(recs, diffRec{keyIndex(cfg, key), typ, valIdx(cfg, removedValue, typ != "add"), valIdx(cfg, addedValue, typ != "remove")})
			if i == errAt {
				return true, cbErr
			}
			if errAt <= -2 && i == -errAt-2 {
				return false, cbErr // "stop" and "failed" at once: the failure counts
			}
			if i == stopAt {
				return false, nil
			}
			return true, nil
		})
	})
	if (errAt >= 0 || errAt <= -2) && res.Err != nil && errors.Is(res.Err, cbErr) {
		res.Err = nil
		res.Root = nil
		return recs, calls, world.Res{Err: errWrapped}
	}
	return
}

var errWrapped = errors.New("callback error returned wrapped")

func observeDiffCursor(cfg *world.Config, newT, oldT *mast.Mast) (recs []diffRec, res world.Res) {
	res = guardRes(func() error {
		dc, err := newT.StartDiff(ctx, oldT)
		if err != nil {
			return err
		}
		for i := 0; i < 10000; i++ {
			d, err := dc.NextEntry(ctx)
			if err == mast.ErrNoMoreDiffs {
				// must stay done
				if _, err2 := dc.NextEntry(ctx); err2 != mast.ErrNoMoreDiffs {
					return fmt.Errorf("NextEntry after the end returned %v", err2)
				}
				return nil
			}
			if err != nil {
				return err
			}
			typ := map[mast.DiffType]string{mast.DiffType_Add: "add", mast.DiffType_Remove: "remove", mast.DiffType_Change: "change"}[d.Type]
			recs = append(recs, diffRec{keyIndex(cfg, d.Key), typ, valIdx(cfg, d.OldValue, typ != "add"), valIdx(cfg, d.NewValue, typ != "remove")})
		}
		return errors.New("diff cursor did not terminate")
	})
	return
}

// observeDiffCursorCancelledAt walks a diff cursor whose k-th NextEntry call is made under a context that is
// already cancelled; whatever that call answers (an entry, an error), the caller goes on with a live context on
// the same cursor. A call that returned an error has reported nothing, so nothing may be lost or repeated.
func observeDiffCursorCancelledAt(cfg *world.Config, newT, oldT *mast.Mast, k int) (recs []diffRec, res world.Res) {
	dead, cancel := context.WithCancel(ctx)
	cancel()
	res = guardRes(func() error {
		dc, err := newT.StartDiff(ctx, oldT)
		if err != nil {
			return err
		}
		for i := 0; i < 10000; i++ {
			c := ctx
			if i == k {
				c = dead
			}
			d, err := dc.NextEntry(c)
			if err == mast.ErrNoMoreDiffs {
				return nil
			}
			if err != nil {
				if i == k {
					continue // the cancelled call; the next one runs under the live context
				}
				return err
			}
			typ := map[mast.DiffType]string{mast.DiffType_Add: "add", mast.DiffType_Remove: "remove", mast.DiffType_Change: "change"}[d.Type]
			recs = append(recs, diffRec{keyIndex(cfg, d.Key), typ, valIdx(cfg, d.OldValue, typ != "add"), valIdx(cfg, d.NewValue, typ != "remove")})
		}
		return errors.New("diff cursor did not terminate")
	})
	return
}

func sameRecs(a, b []diffRec) bool {
	if len(a) != len(b) {
		return false
	}
	for i := range a {
		if a[i] != b[i] {
			return false
		}
	}
	return true
}

func sideClass(c world.Contents, t *mast.Mast, hist []world.Op) string {
	if t == nil {
		return "nil"
	}
	if len(c.M) == 0 {
		for _, op := range hist {
			if op.Kind == world.OpIns {
				return "emptied"
			}
		}
		return "never-populated"
	}
	return "nonempty"
}

// checkEntryDiff judges one ordered pair; returns findings (sig, what, detail).
func checkEntryDiff(cfg *world.Config, oldT, newT *mast.Mast, oldC, newC world.Contents, cls string, full bool) []explore.Finding {
	var out []explore.Finding
	want := expectedDiff(oldC, newC)
	got, _, r := observeDiffIter(cfg, newT, oldT, -1, -1)
	if r.Err != nil || r.Panic != nil {
		return []explore.Finding{{Sig: fmt.Sprintf("C06|DiffIter|%s|%s", cls, resClass(r)), What: "DiffIter failed on a healthy pair of trees", Detail: fmt.Sprintf("old %v new %v: %v", oldC, newC, r)}}
	}
	if !sameRecs(got, want) {
		sym := "wrong-entries"
		switch {
		case len(got) < len(want):
			sym = "differences-missing"
		case len(got) > len(want):
			sym = "extra-or-duplicate-differences"
		}
		return []explore.Finding{{Sig: fmt.Sprintf("C06|DiffIter|%s|%s", cls, sym), What: "DiffIter does not report exactly the differing keys once each in ascending order", Detail: fmt.Sprintf("old %v new %v: got %v want %v", oldC, newC, got, want)}}
	}
	cgot, cr := observeDiffCursor(cfg, newT, oldT)
	if cr.Err != nil || cr.Panic != nil || !sameRecs(cgot, want) {
		out = append(out, explore.Finding{Sig: fmt.Sprintf("C06|DiffCursor|%s|%s", cls, resClass(cr)), What: "StartDiff/NextEntry disagrees with the callback interface / the expected differences", Detail: fmt.Sprintf("old %v new %v: cursor %v (%v) want %v", oldC, newC, cgot, cr, want)})
	}
	if full {
		for k := 0; k <= len(want); k++ {
			g, r := observeDiffCursorCancelledAt(cfg, newT, oldT, k)
			if r.Err != nil || r.Panic != nil || !sameRecs(g, want) {
				out = append(out, explore.Finding{Sig: fmt.Sprintf("C06|DiffCursor|one-call-under-a-cancelled-context|%s|%s", cls, resClass(r)), What: "a diff cursor one of whose NextEntry calls ran under a cancelled context, continued under a live one, does not report exactly the differing keys", Detail: fmt.Sprintf("old %v new %v: call %d cancelled: cursor %v (%v) want %v", oldC, newC, k, g, r, want)})
				break
			}
		}
		for i := 0; i < len(want); i++ {
			g, calls, r := observeDiffIter(cfg, newT, oldT, i, -1)
			if r.Err != nil || r.Panic != nil || calls != i+1 || !sameRecs(g, want[:i+1]) {
				out = append(out, explore.Finding{Sig: fmt.Sprintf("C06|DiffIter-stop|%s|%s", cls, resClass(r)), What: "DiffIter does not stop exactly when the callback says so", Detail: fmt.Sprintf("stop at call %d: calls=%d res=%v", i, calls, r)})
				break
			}
			g, calls, r = observeDiffIter(cfg, newT, oldT, -1, i)
			if r.Err != errWrapped || calls != i+1 {
				out = append(out, explore.Finding{Sig: fmt.Sprintf("C06|DiffIter-cberror|%s|%s", cls, resClass(r)), What: "DiffIter does not fail with the callback's error exactly when the callback fails", Detail: fmt.Sprintf("error at call %d: calls=%d res=%v", i, calls, r)})
				break
			}
			g, calls, r = observeDiffIter(cfg, newT, oldT, -1, -i-2)
			if r.Err != errWrapped || calls != i+1 {
				out = append(out, explore.Finding{Sig: fmt.Sprintf("C06|DiffIter-cberror-with-keepGoing-false|%s|%s", cls, resClass(r)), What: "DiffIter does not fail with the callback's error when the callback returns (false, err)", Detail: fmt.Sprintf("error at call %d: calls=%d res=%v", i, calls, r)})
				break
			}
		}
	}
	return out
}

// ---------- C07 / C15 on persisted versions ----------

type version struct {
	c     world.Contents
	w     *world.World
	t     *mast.Mast
	root  *mast.Root
	link  string
	reach map[string]bool
}

// allVersions builds every persisted version over the universe: every subset of keys x values.
func allVersions(cfg *world.Config) ([]*version, error) {
	nk, nv := len(cfg.Keys), len(cfg.Vals)
	total := 1
	for i := 0; i < nk; i++ {
		total *= nv + 1
	}
	vs := make([]*version, total)
	var firstErr atomic.Value
	parallelFor(total, func(idx int) {
		w, err := world.New(cfg)
		if err != nil {
			firstErr.Store(err)
			return
		}
		// digits of idx in base nv+1: 0 = absent, d>0 = value d-1; the insertion
		// order is rotated by idx so that different build orders are exercised
		x := idx
		digits := make([]int, nk)
		for i := 0; i < nk; i++ {
			digits[i] = x % (nv + 1)
			x /= nv + 1
		}
		present := 0
		for _, d := range digits {
			if d > 0 {
				present++
			}
		}
		if present < cfg.MinEntries {
			return
		}
		for s := 0; s < nk; s++ {
			kk := (s + idx) % nk
			if digits[kk] > 0 {
				if r := w.Apply(world.Op{Kind: world.OpIns, K: kk, V: digits[kk] - 1}); r.Err != nil || r.Panic != nil {
					firstErr.Store(fmt.Errorf("build version: %v", r))
					return
				}
			}
		}
		r := w.Apply(world.Op{Kind: world.OpReload})
		if r.Err != nil || r.Panic != nil {
			firstErr.Store(fmt.Errorf("persist version: %v", r))
			return
		}
		v := &version{w: w, t: w.Trees[0], root: r.Root, link: linkOf(r.Root), c: w.ReadContents(w.Trees[0])}
		if h, ok := c14StoreHook.Load(cfg.Name); ok {
			for _, n := range w.Store.Names() {
				b, _ := w.Store.Has(n)
				h.(func(env.Call))(env.Call{Kind: "store", Name: n, Bytes: b})
			}
		}
		w.Store.StopLog()
		v.reach, err = codecFor(cfg).Reach(cfg.KS, storeGet(w.Store), v.link)
		if err != nil {
			firstErr.Store(err)
			return
		}
		vs[idx] = v
	})
	if e := firstErr.Load(); e != nil {
		return nil, e.(error)
	}
	if cfg.MinEntries > 0 {
		var kept []*version
		for _, v := range vs {
			if v != nil {
				kept = append(kept, v)
			}
		}
		vs = kept
	}
	return vs, nil
}

type linkEvent struct {
	removed bool
	name    string
}

func observeDiffLinks(newT, oldT *mast.Mast) (evs []linkEvent, nonString int, res world.Res) {
	res = guardRes(func() error {
		return newT.DiffLinks(ctx, oldT, func(removed bool, link interface{}) (bool, error) {
			s, ok := link.(string)
			if !ok {
				nonString++
				return true, nil
			}
			evs = append(evs, linkEvent{removed, s})
			return true, nil
		})
	})
	return
}

func heightClass(a, b *version) string {
	switch {
	case a.link == "" && b.link == "":
		return "both-empty"
	case a.link == "":
		return "old-empty"
	case b.link == "":
		return "new-empty"
	case a.root.Height == b.root.Height:
		return "same-height"
	}
	return "different-heights"
}

// checkNodeDiff: C07 for one ordered pair of persisted versions.
func checkNodeDiff(cfg *world.Config, o, n *version) []explore.Finding {
	out := checkNodeDiffTrees(cfg, o, n, n.t, o.t, heightClass(o, n))
	if len(out) > 0 || o.root == nil || n.root == nil {
		return out
	}
	// the same two versions opened through a NodeCache that holds none of their nodes yet (a fresh process,
	// a replica): one cache for both trees, and one each
	for vi, variant := range []string{"both-versions-through-one-cold-NodeCache", "each-version-through-its-own-cold-NodeCache"} {
		c1 := mast.NewNodeCache(1000)
		c2 := c1
		if vi == 1 {
			c2 = mast.NewNodeCache(1000)
		}
		orc, nrc := o.w.RemoteConfig(o.w.Store, false), n.w.RemoteConfig(n.w.Store, false)
		orc.NodeCache, nrc.NodeCache = c1, c2
		ot, err1 := o.root.LoadMast(ctx, orc)
		nt, err2 := n.root.LoadMast(ctx, nrc)
		if err1 != nil || err2 != nil {
			continue
		}
		if out := checkNodeDiffTrees(cfg, o, n, nt, ot, heightClass(o, n)+"|"+variant); len(out) > 0 {
			return out
		}
	}
	return nil
}

func checkNodeDiffTrees(cfg *world.Config, o, n *version, newT, oldT *mast.Mast, cls string) []explore.Finding {
	evs, nonString, r := observeDiffLinks(newT, oldT)
	if r.Err != nil || r.Panic != nil {
		return []explore.Finding{{Sig: fmt.Sprintf("C07|DiffLinks|%s|%s", cls, resClass(r)), What: "DiffLinks failed on two persisted versions", Detail: fmt.Sprintf("old %v new %v: %v", o.c, n.c, r)}}
	}
	var out []explore.Finding
	if nonString > 0 {
		out = append(out, explore.Finding{Sig: "C07|DiffLinks|" + cls + "|non-name-link-reported", What: "DiffLinks reported a link that is not a node name for persisted versions"})
	}
	added, removed := map[string]int{}, map[string]int{}
	for _, e := range evs {
		if e.removed {
			removed[e.name]++
		} else {
			added[e.name]++
		}
	}
	det := func() string {
		return fmt.Sprintf("old %v (h%d) new %v (h%d): events %v", o.c, o.root.Height, n.c, n.root.Height, evs)
	}
	for _, cnt := range added {
		if cnt > 1 {
			out = append(out, explore.Finding{Sig: "C07|added-twice|" + cls, What: "a node name was reported as added more than once", Detail: det()})
			break
		}
	}
	for name := range added {
		if !n.reach[name] {
			out = append(out, explore.Finding{Sig: "C07|added-outside-new|" + cls, What: "a name reported as added is not reachable from the new version", Detail: name + " " + det()})
			break
		}
	}
	for name := range n.reach {
		if !o.reach[name] && added[name] == 0 {
			out = append(out, explore.Finding{Sig: "C07|added-missing|" + cls, What: "a node the new version reaches and the old one does not was not reported as added", Detail: name + " " + det()})
			break
		}
	}
	for _, cnt := range removed {
		if cnt > 1 {
			out = append(out, explore.Finding{Sig: "C07|removed-twice|" + cls, What: "a node name was reported as removed more than once", Detail: det()})
			break
		}
	}
	for name := range removed {
		if !o.reach[name] {
			out = append(out, explore.Finding{Sig: "C07|removed-outside-old|" + cls, What: "a name reported as removed is not reachable from the old version", Detail: name + " " + det()})
			break
		}
	}
	for name := range o.reach {
		if !n.reach[name] && removed[name] == 0 {
			out = append(out, explore.Finding{Sig: "C07|removed-missing|" + cls, What: "a node the old version reaches and the new one does not was not reported as removed", Detail: name + " " + det()})
			break
		}
	}
	if len(out) > 0 {
		return out
	}
	// replica: a store holding reach(old) + added must let the new version load completely
	rw, err := world.New(cfg)
	if err != nil {
		return []explore.Finding{{Sig: "C07|harness", What: err.Error()}}
	}
	for name := range o.reach {
		b, _ := o.w.Store.Has(name)
		rw.Store.M[name] = b
	}
	for name := range added {
		b, ok := n.w.Store.Has(name)
		if ok {
			rw.Store.M[name] = b
		}
	}
	var t2 *mast.Mast
	rr := guardRes(func() (err error) { t2, err = n.root.LoadMast(ctx, rw.RemoteConfig(rw.Store, false)); return })
	if rr.Err == nil && rr.Panic == nil {
		c2 := rw.ReadContents(t2)
		if c2.Equal(n.c) {
			rr = guardRes(func() error { return t2.Iter(ctx, func(k, v interface{}) error { return nil }) })
			if rr.Err == nil && rr.Panic == nil {
				return nil
			}
		} else {
			rr.Err = fmt.Errorf("replica contents %v want %v", c2, n.c)
		}
	}
	return []explore.Finding{{Sig: "C07|replica-cannot-load|" + cls, What: "a store holding the old version plus the added nodes cannot load the new version completely", Detail: fmt.Sprintf("%v; %s", rr, det())}}
}

// checkDiffCost: C15 for one ordered pair.
var c15FaultRuns int64

func checkDiffCost(cfg *world.Config, o, n *version) []explore.Finding {
	cls := heightClass(o, n)
	D := 0
	for name := range o.reach {
		if !n.reach[name] {
			D++
		}
	}
	for name := range n.reach {
		if !o.reach[name] {
			D++
		}
	}
	var out []explore.Finding
	measure := func(api string, f func() error) {
		o.w.Store.ResetLog()
		if n.w != o.w {
			n.w.Store.ResetLog()
		}
		r := guardRes(f)
		if r.Err != nil || r.Panic != nil {
			return // judged by C06/C07
		}
		names := map[string]bool{}
		for _, c := range o.w.Store.Calls("load") {
			names[c.Name] = true
		}
		if n.w != o.w {
			for _, c := range n.w.Store.Calls("load") {
				names[c.Name] = true
			}
		}
		bound := 2*D + 2
		if o.link == n.link {
			bound = 0
		}
		if len(names) > bound {
			sig := fmt.Sprintf("C15|%s|%s|reads-exceed-2D+2", api, cls)
			if o.link == n.link {
				sig = fmt.Sprintf("C15|%s|same-version-read-nodes", api)
			} else if onlyRootsOfCommonSubtrees(cfg, o, n, names) {
				// every node read beyond the differing ones is the root of a common subtree hanging directly below a
				// node that differs; nothing inside a common subtree was read (see KNOWN_FINDINGS.txt)
				sig = fmt.Sprintf("C15|%s|reads-exceed-2D+2|extra-reads-are-roots-of-common-subtrees-directly-below-differing-nodes", api)
			}
			out = append(out, explore.Finding{Sig: sig, What: api + " read more distinct nodes than the bound for the number of differing nodes", Detail: fmt.Sprintf("old %v new %v: D=%d bound=%d distinct loads=%d", o.c, n.c, D, bound, len(names))})
		}
	}
	measure("DiffIter", func() error {
		return n.t.DiffIter(ctx, o.t, func(a, r bool, k, av, rv interface{}) (bool, error) { return true, nil })
	})
	if cfg.KS.Name == "struct" && cfg.CustomCompare {
		// keys layered through the configured marshaler: one Marshal call of either side fails during the
		// diff. A diff that still reports success is held to the same bound (a layer that could not be
		// computed must not turn into a walk down what the versions share).
		o.w.Msh.Reset()
		n.w.Msh.Reset()
		diff := func() error {
			return n.t.DiffIter(ctx, o.t, func(a, r bool, k, av, rv interface{}) (bool, error) { return true, nil })
		}
		if r := guardRes(diff); r.Err == nil && r.Panic == nil {
			for si, side := range []*version{o, n} {
				if si == 1 && n.w == o.w {
					break
				}
				calls := side.w.Msh.N
				for i := 0; i < calls; i++ {
					o.w.Msh.Reset()
					n.w.Msh.Reset()
					side.w.Msh.FailAt = map[int]bool{i: true}
					measure(fmt.Sprintf("DiffIter-with-a-failing-Marshal-call-of-the-%s-version", []string{"old", "new"}[si]), diff)
					o.w.Msh.Reset()
					n.w.Msh.Reset()
					side.w.Msh.FailFrom = i + 1
					measure(fmt.Sprintf("DiffIter-with-the-marshaler-of-the-%s-version-failing-from-some-call-on", []string{"old", "new"}[si]), diff)
					atomic.AddInt64(&c15FaultRuns, 2)
				}
			}
		}
		o.w.Msh.Reset()
		n.w.Msh.Reset()
	}
	measure("StartDiff/NextEntry", func() error {
		dc, err := n.t.StartDiff(ctx, o.t)
		if err != nil {
			return err
		}
		for i := 0; i < 100000; i++ {
			if _, err := dc.NextEntry(ctx); err != nil {
				if err == mast.ErrNoMoreDiffs {
					return nil
				}
				return err
			}
		}
		return nil
	})
	measure("DiffLinks", func() error {
		return n.t.DiffLinks(ctx, o.t, func(r bool, l interface{}) (bool, error) { return true, nil })
	})
	// the old version opened through another handle on the same nodes (a mirror: other NodeURLPrefix, same
	// content-addressed names): what the two versions share is still shared
	if o.w == n.w && o.root != nil {
		alt := env.NewStore("mem://mirror/")
		for _, name := range o.w.Store.Names() {
			b, _ := o.w.Store.Has(name)
			alt.M[name] = b
		}
		if ot, err := o.root.LoadMast(ctx, o.w.RemoteConfig(alt, false)); err == nil {
			o.w.Store.ResetLog()
			alt.ResetLog()
			r := guardRes(func() error {
				return n.t.DiffIter(ctx, ot, func(a, r bool, k, av, rv interface{}) (bool, error) { return true, nil })
			})
			if r.Err == nil && r.Panic == nil {
				names := map[string]bool{}
				for _, c := range append(o.w.Store.Calls("load"), alt.Calls("load")...) {
					names[c.Name] = true
				}
				bound := 2*D + 2
				if o.link == n.link {
					bound = 0
				}
				if len(names) > bound && o.link != n.link && onlyRootsOfCommonSubtrees(cfg, o, n, names) {
					out = append(out, explore.Finding{Sig: "C15|DiffIter|reads-exceed-2D+2|extra-reads-are-roots-of-common-subtrees-directly-below-differing-nodes", What: "DiffIter read more distinct nodes than the bound for the number of differing nodes", Detail: fmt.Sprintf("old %v new %v: D=%d bound=%d distinct loads=%d (old version through a mirror store)", o.c, n.c, D, bound, len(names))})
				} else if len(names) > bound {
					out = append(out, explore.Finding{Sig: fmt.Sprintf("C15|DiffIter|old-version-through-a-mirror-store|%s|reads-exceed-2D+2", cls), What: "DiffIter against the old version opened through another store handle holding the same nodes read more distinct nodes than the bound", Detail: fmt.Sprintf("old %v new %v: D=%d bound=%d distinct loads=%d", o.c, n.c, D, bound, len(names))})
				}
			}
		}
	}
	return out
}

// pairAccumulator merges findings from parallel pair checks.
type pairAcc struct {
	mu      sync.Mutex
	found   map[string]*report.Violation
	pairs   int64
	nontr   int64
	samples []interface{}
	// relabel: findings of a judge written for another property are reported under this one (C16 runs the
	// diff-cost judge of C15 on related trees)
	relabel string
}

// sample keeps a few concrete cases for the evidence file.
func (a *pairAcc) sample(v interface{}) {
	a.mu.Lock()
	if len(a.samples) < 2 {
		a.samples = append(a.samples, v)
	}
	a.mu.Unlock()
}

func (a *pairAcc) wantSample() bool {
	a.mu.Lock()
	defer a.mu.Unlock()
	return len(a.samples) < 2
}

func (a *pairAcc) add(cfg *world.Config, check string, fs []explore.Finding, histDesc []string) {
	if len(fs) == 0 {
		return
	}
	a.mu.Lock()
	defer a.mu.Unlock()
	if a.found == nil {
		a.found = map[string]*report.Violation{}
	}
	for _, f := range fs {
		if a.relabel != "" {
			check = a.relabel
			if len(f.Sig) > 3 && f.Sig[3] == '|' {
				f.Sig = a.relabel + f.Sig[3:]
			}
		}
		v := a.found[f.Sig]
		if v == nil {
			a.found[f.Sig] = &report.Violation{Sig: f.Sig, What: f.What, Detail: f.Detail, Config: cfg.Name, Check: check, History: histDesc, Count: 1}
			continue
		}
		v.Count++
		if len(histDesc) < len(v.History) {
			v.History, v.Detail = histDesc, f.Detail
		}
	}
}

func (a *pairAcc) flush(run *report.Run) {
	for _, v := range a.samples {
		run.AddSample(v)
	}
	sigs := make([]string, 0, len(a.found))
	for s := range a.found {
		sigs = append(sigs, s)
	}
	sort.Strings(sigs)
	for _, s := range sigs {
		run.Add(*a.found[s])
	}
}

func pairHist(cfg *world.Config, o, n []world.Op) []string {
	out := []string{"old:"}
	out = append(out, cfg.DescribeHist(o)...)
	out = append(out, "new:")
	return append(out, cfg.DescribeHist(n)...)
}

// C06 driver.
func C06(run *report.Run) {
	B, M := ref.FormatBinary, ref.FormatMarshaler
	cfgs := []*world.Config{
		world.UintCfg(2, urange(1, 4), 2, B, "none"),
		world.UintCfg(2, urange(1, 5), 1, M, "none"),
		world.LKeyCfg(2, []uint8{0, 2, 0, 1}, 1, B, "none"),
		world.LKeyCfg(2, []uint8{3, 0, 0, 1}, 1, B, "none"),
		// uncomparable value types (slices, structs holding slices and maps): values are compared during the merge
		world.IntCfg(2, []int{1, 2, 4}, []interface{}{[]int{1}, []int{2, 3}}, []int{}, B, "none"),
		world.IntCfg(2, []int{1, 2, 4}, []interface{}{world.TVal{Tags: []string{"x"}}, world.TVal{Tags: []string{"y"}, M: map[string]int{"q": 1}}}, world.TVal{}, M, "none"),
		nilValues(world.IntCfg(2, []int{1, 2, 3, 4, 8}, []interface{}{nil}, nil, B, "none")),
		// a comparator that answers -3/0/3
		world.Wide(world.UintCfg(2, urange(1, 4), 2, M, "none")),
		// key types that are not comparable with == ([]byte) or are layered through the marshaler (struct)
		world.BytesCfg(2, []uint8{0, 1, 0, 2}, B, "none"),
		world.StructCfg(2, []uint8{0, 1, 0, 2}, M, "none"),
		// values that differ only as nil versus empty (different encodings, distinguishable through Get)
		world.IntCfg(2, []int{1, 2, 4}, []interface{}{[]byte(nil), []byte{}, []byte{0}}, []byte{}, B, "none"),
		world.IntCfg(2, []int{1, 2, 4}, []interface{}{[]int(nil), []int{}}, []int{}, M, "none"),
	}
	if run.Thorough() {
		cfgs = append(cfgs, world.UintCfg(2, urange(1, 5), 2, B, "none"), world.UintCfg(3, ulist(1, 2, 3, 4, 6, 9), 1, B, "none"))
		for _, l := range allLayerAssignments(4, 3) {
			cfgs = append(cfgs, world.LKeyCfg(2, l, 1, B, "none"))
		}
	}
	acc := &pairAcc{}
	for _, cfg := range cfgs {
		states := closureStates(run, "C06", cfg)
		n := len(states)
		if n == 0 {
			continue
		}
		run.States += int64(n)
		// unrelated pairs: the product of the closure with itself (+ nil old tree)
		parallelFor(n*(n+1), func(idx int) {
			i, j := idx/(n+1), idx%(n+1)
			nw := states[i]
			if j == n {
				atomic.AddInt64(&acc.pairs, 1)
				fs := checkEntryDiff(cfg, nil, nw.t, world.Contents{M: map[int]int{}}, nw.c, "old=nil,new="+sideClass(nw.c, nw.t, nw.hist), true)
				acc.add(cfg, "C06", fs, pairHist(cfg, nil, nw.hist))
				return
			}
			od := states[j]
			atomic.AddInt64(&acc.pairs, 1)
			if len(expectedDiff(od.c, nw.c)) > 0 {
				atomic.AddInt64(&acc.nontr, 1)
			}
			cls := "old=" + sideClass(od.c, od.t, od.hist) + ",new=" + sideClass(nw.c, nw.t, nw.hist)
			if len(od.hist) >= 3 && len(nw.hist) >= 3 && len(expectedDiff(od.c, nw.c)) >= 2 && acc.wantSample() {
				got, _, _ := observeDiffIter(cfg, nw.t, od.t, -1, -1)
				acc.sample(map[string]interface{}{"config": cfg.Name, "old_tree_built_by": cfg.DescribeHist(od.hist), "new_tree_built_by": cfg.DescribeHist(nw.hist), "DiffIter_reported": fmt.Sprint(got), "expected_from_contents": fmt.Sprint(expectedDiff(od.c, nw.c))})
			}
			fs := checkEntryDiff(cfg, od.t, nw.t, od.c, nw.c, cls, (i+j)%7 == 0 || n <= 400)
			acc.add(cfg, "C06", fs, pairHist(cfg, od.hist, nw.hist))
		})
		// read-only: no tree may have changed
		for _, s := range states {
			if world.HookAvailable && s.w.StateKey("") != s.key {
				acc.add(cfg, "C06", []explore.Finding{{Sig: "C06|diff-mutated-a-tree", What: "diffing changed the in-memory state of a tree"}}, cfg.DescribeHist(s.hist))
			}
		}
		related := relatedPairs(run, cfg, states, acc)
		run.Transitions += related
		if cfg == cfgs[0] {
			run.Transitions += c06CallHistories(run, cfg, states, acc)
		}
	}
	acc.flush(run)
	// persisted versions of a larger universe (heights up to 5, one side regularly running out while the other
	// still holds whole subtrees): prefixes, suffixes, alternating keys; all ordered pairs
	tallVersionPairs(run, "C06", world.UintCfg(2, urange(1, 40), 1, ref.FormatBinary, "none"), func(cfg *world.Config, o, n *version) []explore.Finding {
		return checkEntryDiff(cfg, o.t, n.t, o.c, n.c, "tall|"+heightClass(o, n), false)
	})
	swallowedFaultPass(run, "C06", "DiffIter", "DiffCursor")
	run.Transitions += acc.pairs
	run.Validated = run.Transitions
	run.Evals = acc.pairs
	run.Distinct = acc.nontr
	run.AddSample(map[string]interface{}{"pair": "every ordered pair (old,new) of reachable single-tree states, e.g. old=[ins 1, persist, ins 2] new=[ins 2, del 2, ins 3]", "observed": "DiffIter, StartDiff/NextEntry, DiffIter stopped / failing at each callback index"})
	run.Rule = "states = single-tree closure (engine W) of each configuration; every ordered pair of states (unrelated trees, each in its own store) plus old=nil, plus related pairs (clone / reload of every base state followed by every sequence of <=L ops on either side, trees sharing in-memory nodes); non-trivial = pairs whose contents differ; oracle = merge of the two trees' contents read by per-key Get"
}

// nilValues: a tree used as a set (ValuesLike=nil, registered types).
func nilValues(c *world.Config) *world.Config {
	c.RegisteredTypes = true
	return c
}

// relatedPairs: base state -> capture (clone | reload into second slot) -> <=L ops on either tree -> diff both ways.
func relatedPairs(run *report.Run, cfg *world.Config, states []*builtState, acc *pairAcc) int64 {
	L := 2
	var ops []world.Op
	for slot := 0; slot < 2; slot++ {
		for k := range cfg.Keys {
			ops = append(ops, world.Op{Kind: world.OpIns, A: slot, K: k, V: len(cfg.Vals) - 1})
			ops = append(ops, world.Op{Kind: world.OpDel, A: slot, K: k, V: 0})
		}
		ops = append(ops, world.Op{Kind: world.OpPersist, A: slot})
	}
	captures := [][]world.Op{{{Kind: world.OpClone, A: 0, B: 1}}, {{Kind: world.OpKeep, A: 0, B: 0}, {Kind: world.OpLoad, A: 1, B: 0}}}
	var seqs [][]world.Op
	var gen func(prefix []world.Op, d int)
	gen = func(prefix []world.Op, d int) {
		seqs = append(seqs, append([]world.Op{}, prefix...))
		if d == L {
			return
		}
		for _, op := range ops {
			gen(append(prefix, op), d+1)
		}
	}
	gen(nil, 0)
	stride := 1
	if !run.Thorough() && len(states) > 300 {
		stride = len(states)/300 + 1 // quick tier: an evenly spaced subset of base states (reported)
	}
	var count int64
	var bases int64
	parallelFor(len(states), func(i int) {
		if i%stride != 0 {
			return
		}
		atomic.AddInt64(&bases, 1)
		b := states[i]
		for _, capt := range captures {
			seen := map[string]bool{}
			for _, seq := range seqs {
				hist := append(append(append([]world.Op{}, b.hist...), capt...), seq...)
				w, err := world.New(cfg)
				if err != nil {
					return
				}
				w.Reduced = true
				ok := true
				for _, op := range hist {
					if !w.Enabled(op) {
						ok = false
						break
					}
					if r := w.Apply(op); r.Panic != nil {
						ok = false
						break
					}
				}
				if !ok {
					continue
				}
				key := w.StateKey("")
				if world.HookAvailable && seen[key] {
					continue
				}
				seen[key] = true
				atomic.AddInt64(&count, 1)
				c0, c1 := w.ReadContents(w.Trees[0]), w.ReadContents(w.Trees[1])
				if c0.Bad != "" || c1.Bad != "" {
					continue
				}
				fs := checkEntryDiff(cfg, w.Trees[0], w.Trees[1], c0, c1, "related", false)
				fs = append(fs, checkEntryDiff(cfg, w.Trees[1], w.Trees[0], c1, c0, "related", false)...)
				acc.add(cfg, "C06", fs, append([]string{"single world:"}, cfg.DescribeHist(hist)...))
			}
		}
	})
	run.Parts = append(run.Parts, map[string]interface{}{"config": cfg.Name, "related_bases": bases, "related_worlds_diffed_both_ways": count, "continuation_len": L, "base_stride": stride})
	if stride > 1 {
		run.Extra["related_pairs_note"] = "quick tier takes an evenly spaced subset of base states for the related-pair fan-out (stride reported per part); the unrelated product is complete"
	}
	return count
}

// versionConfigs for C07/C15.
func versionConfigs(thorough bool) []*world.Config {
	B, M := ref.FormatBinary, ref.FormatMarshaler
	cs := []*world.Config{
		world.UintCfg(2, urange(1, 5), 2, B, "none"),
		world.UintCfg(2, urange(0, 8), 1, B, "none"),
		world.UintCfg(3, ulist(1, 2, 3, 4, 6, 9, 18), 1, M, "none"),
		world.LKeyCfg(2, []uint8{0, 2, 0, 1, 3, 0}, 1, B, "none"),
		world.LKeyCfg(2, []uint8{2, 0, 0, 0, 0, 2}, 1, B, "none"),
		// height 3 with chains of two stacked pass-through nodes (only layer-0 keys under a layer-3 key)
		minEntries(world.LKeyCfg(2, []uint8{0, 0, 0, 0, 3, 0, 0, 0, 1, 3}, 1, B, "none"), 7, thorough),
	}
	// key layers far above any height (a user Key pinning entries to the top node; at branch factor 2 the
	// multiples of 65536): layers 16, 17, 40, 64, 255 - whatever is indexed or sized by a key's *layer* instead
	// of a node's level meets numbers no tree height ever reaches
	cs = append(cs, world.LKeyCfg(2, []uint8{16, 0, 1, 17, 0, 255}, 1, B, "none"))
	cs = append(cs, world.LKeyCfg(2, []uint8{0, 40, 0, 1, 64, 0}, 1, M, "none"))
	// []byte keys (not comparable with ==)
	cs = append(cs, world.BytesCfg(2, []uint8{0, 1, 0, 2, 0}, B, "none"))
	// struct keys: ordered by a comparator of their own, layered through the configured marshaler (which can fail)
	sc := world.StructCfg(2, []uint8{0, 1, 0, 2, 0}, B, "none")
	sc.CustomCompare = true
	sc.Name += "/countingcompare"
	cs = append(cs, sc)
	if thorough {
		cs = append(cs, world.UintCfg(2, urange(0, 10), 1, B, "none"), world.UintCfg(2, urange(1, 6), 2, M, "none"), world.UintCfg(4, ulist(1, 2, 3, 4, 5, 8, 16, 17, 32), 1, B, "none"))
		for _, l := range allLayerAssignments(5, 2) {
			cs = append(cs, world.LKeyCfg(2, l, 1, B, "none"))
		}
	}
	return cs
}

// minEntries restricts a large universe to its bigger versions in the quick tier.
func minEntries(c *world.Config, n int, thorough bool) *world.Config {
	if !thorough {
		c.MinEntries = n
		c.Name += fmt.Sprintf("/versions>=%d-entries", n)
	}
	return c
}

func runVersionPairs(run *report.Run, check string, cfgs []*world.Config, judge func(cfg *world.Config, o, n *version) []explore.Finding) {
	acc := &pairAcc{}
	for _, cfg := range cfgs {
		vs, err := allVersions(cfg)
		if err != nil {
			run.HarnessError("%s: %v", cfg.Name, err)
			continue
		}
		n := len(vs)
		run.States += int64(n)
		parallelFor(n, func(i int) {
			// the old side's store log is reset per measurement, so one worker owns one old version
			for j := 0; j < n; j++ {
				atomic.AddInt64(&acc.pairs, 1)
				if vs[i].link != vs[j].link {
					atomic.AddInt64(&acc.nontr, 1)
				}
				fs := judge(cfg, vs[i], vs[j])
				if len(vs[i].reach) >= 3 && len(vs[j].reach) >= 3 && vs[i].link != vs[j].link && acc.wantSample() {
					evs, _, _ := observeDiffLinks(vs[j].t, vs[i].t)
					acc.sample(map[string]interface{}{"config": cfg.Name, "old_version": vs[i].c.String(), "old_root": vs[i].link, "new_version": vs[j].c.String(), "new_root": vs[j].link, "nodes_reachable_old": len(vs[i].reach), "nodes_reachable_new": len(vs[j].reach), "DiffLinks_events": fmt.Sprint(evs)})
				}
				acc.add(cfg, check, fs, []string{fmt.Sprintf("old version %v", vs[i].c), fmt.Sprintf("new version %v", vs[j].c)})
			}
		})
		run.Parts = append(run.Parts, map[string]interface{}{"config": cfg.Name, "versions": n, "ordered_pairs": n * n})
	}
	acc.flush(run)
	run.Transitions += acc.pairs
	run.Validated = run.Transitions
	run.Evals = acc.pairs
	run.Distinct = acc.nontr
}

// c07CallHistories: the node diff of a pair must not depend on which diff calls the process made
// before. One goroutine, nothing else running: for every ordered pair of a small universe, DiffLinks is
// judged again (a) right after DiffIter of the same pair ("preview the entries, then ship the nodes"),
// (b) right after DiffIter of another pair with the same new side, (c) right after DiffIter of another
// pair with the same old side, (d) right after a DiffCursor of the same pair was abandoned half-way.
func c07CallHistories(run *report.Run) {
	cfg := world.UintCfg(2, urange(1, 5), 1, ref.FormatBinary, "none")
	if run.Thorough() {
		cfg = world.UintCfg(2, urange(0, 8), 1, ref.FormatBinary, "none")
	}
	vs, err := allVersions(cfg)
	if err != nil {
		run.HarnessError("%s: %v", cfg.Name, err)
		return
	}
	acc := &pairAcc{}
	noop := func(a, r bool, k, av, rv interface{}) (bool, error) { return true, nil }
	var n int64
	for i, o := range vs {
		for j, nw := range vs {
			other := vs[(i+j+1)%len(vs)]
			for _, pre := range []struct {
				name string
				f    func()
			}{
				{"DiffIter of the same pair", func() { nw.t.DiffIter(ctx, o.t, noop) }},
				{"DiffIter of another pair with the same new version", func() { nw.t.DiffIter(ctx, other.t, noop) }},
				{"DiffIter of another pair with the same old version", func() { other.t.DiffIter(ctx, o.t, noop) }},
				{"a diff cursor of the same pair abandoned after its first entry", func() {
					if dc, err := nw.t.StartDiff(ctx, o.t); err == nil {
						dc.NextEntry(ctx)
					}
				}},
			} {
				guardRes(func() error { pre.f(); return nil })
				n++
				fs := checkNodeDiff(cfg, o, nw)
				for k := range fs {
					fs[k].Sig += "|after-an-earlier-diff-call"
				}
				acc.add(cfg, "C07", fs, []string{fmt.Sprintf("old version %v", o.c), fmt.Sprintf("new version %v", nw.c), "DiffLinks called right after " + pre.name})
			}
		}
	}
	acc.flush(run)
	run.Transitions += n
	run.Parts = append(run.Parts, map[string]interface{}{"part": "call histories (serial): DiffLinks judged right after another diff call", "config": cfg.Name, "versions": len(vs), "observations": n})
}

func C07(run *report.Run) {
	runVersionPairs(run, "C07", versionConfigs(run.Thorough()), checkNodeDiff)
	tallVersionPairs(run, "C07", world.UintCfg(2, urange(1, 40), 1, ref.FormatBinary, "none"), checkNodeDiff)
	if run.Thorough() {
		tallVersionPairs(run, "C07", world.UintCfg(3, urange(1, 90), 1, ref.FormatMarshaler, "none"), checkNodeDiff)
		tallVersionPairs(run, "C07", world.UintCfg(2, urange(1, 70), 1, ref.FormatBinary, "none"), checkNodeDiff)
	}
	c07CallHistories(run)
	swallowedFaultPass(run, "C07", "DiffLinks")
	run.AddSample("every ordered pair of persisted versions of the universe, e.g. old={1=a,2=a,4=a} new={2=b,3=a}: DiffLinks events vs reach sets from the reference walker, then LoadMast(new) from a store holding reach(old)+added")
	run.Rule = "versions = every assignment of {absent, value...} to the keys of the universe, each built and persisted by the real implementation; all ordered pairs; non-trivial = pairs with different roots; oracle = reach sets computed by the independent store walker + replica load"
}

// c15WriterCache: the new side is the tree of a writer that has a NodeCache attached (its
// nodes come out of the cache as the writer's own flushed objects); the old side is opened
// from the store without a cache. Reads are counted at the stores.
func c15WriterCache(run *report.Run) {
	B := ref.FormatBinary
	acc := &pairAcc{}
	for _, keys := range [][]interface{}{urange(1, 5), urange(0, 8)} {
		nv := 2
		if len(keys) > 6 {
			nv = 1
		}
		plain := world.UintCfg(2, keys, nv, B, "none")
		cached := world.UintCfg(2, keys, nv, B, "big")
		nw := runtime.NumCPU()
		var next int64 = -1
		var wg sync.WaitGroup
		var n int
		for k := 0; k < nw; k++ {
			wg.Add(1)
			go func() {
				defer wg.Done()
				olds, err1 := allVersions(plain)
				news, err2 := allVersions(cached)
				if err1 != nil || err2 != nil {
					return
				}
				n = len(olds)
				for {
					i := int(atomic.AddInt64(&next, 1))
					if i >= len(olds) {
						return
					}
					for j := range news {
						atomic.AddInt64(&acc.pairs, 1)
						if olds[i].link != news[j].link {
							atomic.AddInt64(&acc.nontr, 1)
						}
						fs := checkDiffCost(plain, olds[i], news[j])
						for fi := range fs {
							fs[fi].Sig += "|new-side-from-a-caching-writer"
						}
						acc.add(cached, "C15", fs, []string{fmt.Sprintf("old version %v opened without cache", olds[i].c), fmt.Sprintf("new version %v: the tree of a writer with a NodeCache", news[j].c)})
					}
				}
			}()
		}
		wg.Wait()
		run.Parts = append(run.Parts, map[string]interface{}{"part": "new side from a caching writer, old side cache-less", "config": cached.Name, "versions": n, "ordered_pairs": n * n})
	}
	acc.flush(run)
	run.Transitions += acc.pairs
	run.Validated = run.Transitions
	run.Evals += acc.pairs
	run.Distinct += acc.nontr
}

func C15(run *report.Run) {
	defer c15WriterCache(run)
	{
		acc := &pairAcc{}
		if run.Thorough() {
			tallC15(run, acc, 8300, 37)
			wideC15(run, acc, 7, 4)
		} else {
			tallC15(run, acc, 4200, 101)
		}
		wideC15(run, acc, 5, 4)
		wideC15(run, acc, 4, 16)
		heightC15(run, acc, 4, 4)
		heightC15(run, acc, 2, 8)
		heightC15(run, acc, 3, 5)
		structC15(run, acc)
		adjacentC15(run, acc, 2, 1500)
		adjacentC15(run, acc, 3, 1500)
		adjacentC15(run, acc, 4, 1500)
		subtreesBeforeSharedC15(run, acc, 2, 1500)
		subtreesBeforeSharedC15(run, acc, 3, 1500)
		subtreesBeforeSharedC15(run, acc, 4, 1500)
		chainC15(run, acc)
		ruler := []uint8{0, 1, 0, 2, 0, 1, 0, 3, 0, 1, 0, 2, 0, 1, 0}
		wideC15With(run, acc, 1, 2, ruler, 5)
		wideC15With(run, acc, 3, 2, ruler, 5)
		acc.flush(run)
	}
	runVersionPairsSerial(run, "C15", versionConfigs(run.Thorough()), checkDiffCost)
	if run.Thorough() {
		acc := &pairAcc{}
		bigC15(run, acc)
		acc.flush(run)
	}
	run.Extra["diffs_with_one_failing_marshal_call"] = atomic.LoadInt64(&c15FaultRuns)
	run.AddSample("every ordered pair of persisted versions: distinct names passed to Persist.Load during DiffIter and DiffLinks vs 2*D+2, D = |reach(old) xor reach(new)|")
	run.Rule = "versions as in C07 on cache-less recording stores; all ordered pairs; oracle: distinct Load names <= 2*D+2, and 0 for the same version"
}

// runVersionPairsSerial: like runVersionPairs, but a pair's two stores' logs must not be
// shared between workers: parallelise over the *new* side and give each worker its own copy of the versions.
func runVersionPairsSerial(run *report.Run, check string, cfgs []*world.Config, judge func(cfg *world.Config, o, n *version) []explore.Finding) {
	acc := &pairAcc{}
	for _, cfg := range cfgs {
		nw := runtime.NumCPU()
		sets := make([][]*version, nw)
		var berr error
		for k := 0; k < nw; k++ {
			if k == 0 {
				sets[k], berr = allVersions(cfg)
				if berr != nil {
					break
				}
			}
		}
		if berr != nil {
			run.HarnessError("%s: %v", cfg.Name, berr)
			continue
		}
		n := len(sets[0])
		run.States += int64(n)
		// each worker builds its own private copy of all versions lazily
		var next int64 = -1
		var wg sync.WaitGroup
		for k := 0; k < nw; k++ {
			wg.Add(1)
			go func(k int) {
				defer wg.Done()
				var mine []*version
				for {
					i := int(atomic.AddInt64(&next, 1))
					if i >= n {
						return
					}
					if mine == nil {
						if k == 0 {
							mine = sets[0]
						} else {
							var err error
							mine, err = allVersionsSerial(cfg)
							if err != nil {
								return
							}
						}
					}
					for j := 0; j < n; j++ {
						atomic.AddInt64(&acc.pairs, 1)
						if mine[i].link != mine[j].link {
							atomic.AddInt64(&acc.nontr, 1)
						}
						fs := judge(cfg, mine[i], mine[j])
						if len(mine[i].reach) >= 3 && len(mine[j].reach) >= 3 && mine[i].link != mine[j].link && acc.wantSample() {
							mine[i].w.Store.ResetLog()
							mine[j].t.DiffIter(ctx, mine[i].t, func(a, r bool, k, av, rv interface{}) (bool, error) { return true, nil })
							acc.sample(map[string]interface{}{"config": cfg.Name, "old_version": mine[i].c.String(), "new_version": mine[j].c.String(), "nodes_reachable_old": len(mine[i].reach), "nodes_reachable_new": len(mine[j].reach),
								"loads_from_old_store_during_DiffIter": len(mine[i].w.Store.Calls("load"))})
						}
						acc.add(cfg, check, fs, []string{fmt.Sprintf("old version %v", mine[i].c), fmt.Sprintf("new version %v", mine[j].c)})
					}
				}
			}(k)
		}
		wg.Wait()
		run.Parts = append(run.Parts, map[string]interface{}{"config": cfg.Name, "versions": n, "ordered_pairs": n * n})
	}
	acc.flush(run)
	run.Transitions += acc.pairs
	run.Validated = run.Transitions
	run.Evals = acc.pairs
	run.Distinct = acc.nontr
}

func allVersionsSerial(cfg *world.Config) ([]*version, error) { return allVersions(cfg) }

// c06CallHistories: the entry diff of a pair must not depend on which diff calls the process made
// before. Serially (one goroutine, after the parallel part is over), for every ordered pair of the first
// configuration's states: the pair is judged again right after DiffLinks of the same pair, after DiffIter /
// DiffLinks of another pair sharing one side, and after a diff cursor of the same pair was abandoned.
func c06CallHistories(run *report.Run, cfg *world.Config, states []*builtState, acc *pairAcc) int64 {
	if len(states) > 200 {
		states = states[:200]
	}
	noopE := func(a, r bool, k, av, rv interface{}) (bool, error) { return true, nil }
	noopL := func(r bool, l interface{}) (bool, error) { return true, nil }
	var n int64
	for i, od := range states {
		for j, nw := range states {
			other := states[(i+j+1)%len(states)]
			for _, pre := range []struct {
				name string
				f    func()
			}{
				{"DiffLinks of the same pair", func() { nw.t.DiffLinks(ctx, od.t, noopL) }},
				{"DiffIter of another pair with the same new tree", func() { nw.t.DiffIter(ctx, other.t, noopE) }},
				{"DiffLinks of another pair with the same old tree", func() { other.t.DiffLinks(ctx, od.t, noopL) }},
				{"a diff cursor of the same pair abandoned after its first entry", func() {
					if dc, err := nw.t.StartDiff(ctx, od.t); err == nil {
						dc.NextEntry(ctx)
					}
				}},
				{"DiffIter of another pair stopped by its callback at the first difference", func() {
					other.t.DiffIter(ctx, od.t, func(a, r bool, k, av, rv interface{}) (bool, error) { return false, nil })
				}},
				{"DiffIter of the reversed pair whose callback returned an error at the first difference", func() {
					od.t.DiffIter(ctx, nw.t, func(a, r bool, k, av, rv interface{}) (bool, error) { return false, env.ErrInjected })
				}},
				{"DiffLinks of another pair stopped by its callback at the first node", func() {
					nw.t.DiffLinks(ctx, other.t, func(r bool, l interface{}) (bool, error) { return false, nil })
				}},
			} {
				guardRes(func() error { pre.f(); return nil })
				n++
				cls := "old=" + sideClass(od.c, od.t, od.hist) + ",new=" + sideClass(nw.c, nw.t, nw.hist)
				fs := checkEntryDiff(cfg, od.t, nw.t, od.c, nw.c, cls, false)
				for k := range fs {
					fs[k].Sig += "|after-an-earlier-diff-call"
				}
				acc.add(cfg, "C06", fs, append(pairHist(cfg, od.hist, nw.hist), "the entry diff was taken right after "+pre.name))
				if j == (i+1)%len(states) {
					// and (once per old tree) the diff against no old tree at all, right after the same earlier call
					guardRes(func() error { pre.f(); return nil })
					n++
					fs := checkEntryDiff(cfg, nil, nw.t, world.Contents{M: map[int]int{}}, nw.c, "old=nil,new="+sideClass(nw.c, nw.t, nw.hist), false)
					for k := range fs {
						fs[k].Sig += "|after-an-earlier-diff-call"
					}
					acc.add(cfg, "C06", fs, append(pairHist(cfg, nil, nw.hist), "the entry diff against a nil old tree was taken right after "+pre.name))
				}
			}
		}
	}
	run.Parts = append(run.Parts, map[string]interface{}{"part": "call histories (serial): entry diff judged right after another diff call", "config": cfg.Name, "states": len(states), "observations": n})
	return n
}

// onlyRootsOfCommonSubtrees classifies a diff that read more than 2*D+2 distinct nodes: true iff every
// node that was read and belongs to both versions has, in at least one of the two versions, a parent that
// belongs to that version only. Such a node is the root of a maximal common subtree; nothing strictly
// inside a common subtree was read.
func onlyRootsOfCommonSubtrees(cfg *world.Config, o, n *version, loaded map[string]bool) bool {
	codec := codecFor(cfg)
	children := func(v *version, other *version) map[string]bool {
		// names that are a direct child of a node exclusive to v
		out := map[string]bool{}
		for name := range v.reach {
			if other.reach[name] {
				continue
			}
			b, ok := v.w.Store.Has(name)
			if !ok {
				continue
			}
			rn, err := codec.Decode(b)
			if err != nil {
				continue
			}
			for _, l := range rn.Links {
				if l != "" {
					out[l] = true
				}
			}
		}
		return out
	}
	belowOld, belowNew := children(o, n), children(n, o)
	for name := range loaded {
		if o.reach[name] && n.reach[name] && !belowOld[name] && !belowNew[name] {
			return false
		}
		if !o.reach[name] && !n.reach[name] {
			return false // read something that belongs to neither version
		}
	}
	return true
}

// wideC15: nodes with several keys whose separators all move. Leaves L0..Lk (two layer-0 keys each) and, between
// consecutive leaves, two candidate layer-1 separators s_p < t_p; a version holds every leaf and, per position,
// one of the two separators (2^k versions, one top node each, all leaves common to all versions). Every ordered
// pair. This is where a top node differs in many keys while everything below it is shared.
func wideC15(run *report.Run, acc *pairAcc, k int, bf uint) {
	wideC15With(run, acc, k, bf, []uint8{0, 0}, 1)
}

// wideC15With: the same with a whole subtree (keys with the given layers) in the place of each leaf and
// separators of layer sepLayer: the common parts are tall, the node that differs sits above them.
func wideC15With(run *report.Run, acc *pairAcc, k int, bf uint, leaf []uint8, sepLayer uint8) {
	g := len(leaf) + 2
	var layers []uint8
	for p := 0; p < k; p++ {
		layers = append(layers, leaf...)
		layers = append(layers, sepLayer, sepLayer)
	}
	layers = append(layers, leaf...)
	cfg := world.LKeyCfg(bf, layers, 1, ref.FormatBinary, "none")
	cfg.Name = fmt.Sprintf("wide-node/%d separator positions of layer %d over common subtrees of %d keys/bf%d", k, sepLayer, len(leaf), bf)
	w, err := world.New(cfg)
	if err != nil {
		run.HarnessError("wide: %v", err)
		return
	}
	codec := codecFor(cfg)
	var vs []*version
	for mask := 0; mask < 1<<k; mask++ {
		t, err := mast.NewRoot(cfg.CreateOptions()).LoadMast(ctx, w.RemoteConfig(w.Store, false))
		if err != nil {
			run.HarnessError("wide: %v", err)
			return
		}
		c := world.Contents{M: map[int]int{}}
		ins := func(i int) {
			if err == nil {
				err = t.Insert(ctx, cfg.FreshKey(i), cfg.FreshVal(0))
				c.M[i] = 0
			}
		}
		for p := 0; p <= k; p++ {
			for q := range leaf {
				ins(g*p + q)
			}
			if p < k {
				ins(g*p + len(leaf) + (mask >> p & 1))
			}
		}
		var root *mast.Root
		if err == nil {
			root, err = t.MakeRoot(ctx)
		}
		if err != nil {
			acc.add(cfg, "C15", []explore.Finding{{Sig: "C15|wide-node|version-cannot-be-built|" + report.Norm(err.Error()), What: "building a version on a healthy store failed", Detail: err.Error()}}, []string{cfg.Name})
			return
		}
		c.Size = uint64(len(c.M))
		lt, err := root.LoadMast(ctx, w.RemoteConfig(w.Store, false))
		if err != nil {
			return
		}
		reach, err := codec.Reach(cfg.KS, storeGet(w.Store), linkOf(root))
		if err != nil {
			return
		}
		vs = append(vs, &version{w: w, t: lt, root: root, link: linkOf(root), reach: reach, c: c})
	}
	var pairs int64
	for _, o := range vs {
		for _, n := range vs {
			pairs++
			acc.add(cfg, "C15", checkDiffCost(cfg, o, n), []string{cfg.Name, fmt.Sprintf("old version %v", o.c), fmt.Sprintf("new version %v", n.c)})
		}
	}
	run.Parts = append(run.Parts, map[string]interface{}{"config": cfg.Name, "versions": len(vs), "ordered_pairs": pairs, "height": vs[0].root.Height})
	run.Transitions += pairs
	run.Evals += pairs
	run.Distinct += pairs
}

// buildSubsetVersion builds and persists the version holding exactly the given keys (first value), inserted
// in an order rotated by rot.
func buildSubsetVersion(cfg *world.Config, keys []int, rot int) (*version, error) {
	w, err := world.New(cfg)
	if err != nil {
		return nil, err
	}
	for s := range keys {
		kk := keys[(s+rot)%len(keys)]
		if r := w.Apply(world.Op{Kind: world.OpIns, K: kk, V: 0}); r.Err != nil || r.Panic != nil {
			return nil, fmt.Errorf("build version: %v", r)
		}
	}
	r := w.Apply(world.Op{Kind: world.OpReload})
	if r.Err != nil || r.Panic != nil {
		return nil, fmt.Errorf("persist version: %v", r)
	}
	v := &version{w: w, t: w.Trees[0], root: r.Root, link: linkOf(r.Root), c: w.ReadContents(w.Trees[0])}
	w.Store.StopLog()
	v.reach, err = codecFor(cfg).Reach(cfg.KS, storeGet(w.Store), v.link)
	return v, err
}

// tallVersionPairs: versions of a larger universe than the all-subsets enumeration can afford - every
// prefix, every suffix, the keys at even and at odd positions, and the full set minus one key for a few
// keys - and all their ordered pairs. Heights differ by up to the full height of the universe; one side
// regularly runs out (all its keys smaller or larger) while the other still has whole subtrees to report.
func tallVersionPairs(run *report.Run, check string, cfg *world.Config, judge func(cfg *world.Config, o, n *version) []explore.Finding) {
	nk := len(cfg.Keys)
	var subsets [][]int
	rng := func(a, b, step int) []int {
		var out []int
		for i := a; i < b; i += step {
			out = append(out, i)
		}
		return out
	}
	for k := 0; k <= nk; k++ {
		subsets = append(subsets, rng(0, k, 1))
		if k > 0 && k < nk {
			subsets = append(subsets, rng(k, nk, 1))
		}
	}
	subsets = append(subsets, rng(0, nk, 2), rng(1, nk, 2))
	for _, drop := range []int{0, nk / 3, nk / 2, nk - 1} {
		var s []int
		for i := 0; i < nk; i++ {
			if i != drop {
				s = append(s, i)
			}
		}
		subsets = append(subsets, s)
	}
	vs := make([]*version, len(subsets))
	var firstErr atomic.Value
	parallelFor(len(subsets), func(i int) {
		v, err := buildSubsetVersion(cfg, subsets[i], i)
		if err != nil {
			firstErr.Store(err)
			return
		}
		vs[i] = v
	})
	if e := firstErr.Load(); e != nil {
		run.HarnessError("%s: %v", cfg.Name, e)
		return
	}
	acc := &pairAcc{}
	n := len(vs)
	maxH := uint8(0)
	for _, v := range vs {
		if v.root.Height > maxH {
			maxH = v.root.Height
		}
	}
	parallelFor(n, func(i int) {
		for j := 0; j < n; j++ {
			atomic.AddInt64(&acc.pairs, 1)
			if vs[i].link != vs[j].link {
				atomic.AddInt64(&acc.nontr, 1)
			}
			acc.add(cfg, check, judge(cfg, vs[i], vs[j]), []string{fmt.Sprintf("old version: keys #%v of %s (height %d)", compactInts(subsets[i]), cfg.Name, vs[i].root.Height), fmt.Sprintf("new version: keys #%v (height %d)", compactInts(subsets[j]), vs[j].root.Height)})
		}
	})
	acc.flush(run)
	run.States += int64(n)
	run.Transitions += acc.pairs
	run.Validated = run.Transitions
	run.Evals += acc.pairs
	run.Distinct += acc.nontr
	run.Parts = append(run.Parts, map[string]interface{}{"part": "larger universe: prefixes, suffixes, alternating keys, one key dropped; all ordered pairs", "config": cfg.Name, "versions": n, "ordered_pairs": n * n, "greatest_height": maxH})
}

func compactInts(xs []int) string {
	if len(xs) == 0 {
		return "{}"
	}
	step := 1
	if len(xs) > 1 {
		step = xs[1] - xs[0]
	}
	regular := true
	for i := 1; i < len(xs); i++ {
		if xs[i]-xs[i-1] != step {
			regular = false
		}
	}
	if regular && len(xs) > 2 {
		return fmt.Sprintf("{%d..%d step %d}", xs[0], xs[len(xs)-1], step)
	}
	return fmt.Sprint(xs)
}
