package checks

import (
	"encoding/binary"
	"encoding/json"
	"fmt"
	"math"
	"sync/atomic"

	"github.com/jrhy/mast"
	"verifharness/env"
	"verifharness/explore"
	"verifharness/ref"
	"verifharness/report"
	"verifharness/world"
)

// C19: loading rejects a root that does not match. For every persisted version
// and every perturbation, the reference side evaluates the property's own list
// of clauses on the (perturbed) top node; if one holds LoadMast must return an
// error (not panic, not a tree); perturbations for which none holds are not judged.

type c19Case struct {
	name    string
	root    mast.Root
	store   map[string][]byte // overrides
	remove  string
	reverse bool // loader uses the reversed key order
	wide    int  // > 0: the loader's comparator answers like a subtraction (-wide, 0, +wide), not -1/0/1
	kind    string
}

// clauses returns the names of the property clauses that hold for this case.
func c19Clauses(cfg *world.Config, base *env.Store, c *c19Case) []string {
	var out []string
	if c.root.NodeFormat != "" && c.root.NodeFormat != ref.FormatBinary && c.root.NodeFormat != ref.FormatMarshaler {
		return []string{"unknown-format"}
	}
	if c.root.Link == nil {
		return nil
	}
	name := *c.root.Link
	b, ok := c.store[name]
	if !ok {
		if name == c.remove {
			return []string{"top-node-missing"}
		}
		b, ok = base.Has(name)
		if !ok {
			return []string{"top-node-missing"}
		}
	}
	format := c.root.NodeFormat
	if format == "" {
		format = ref.FormatMarshaler
	}
	codec := &ref.Codec{Format: format}
	rn, err := codec.Decode(b)
	if err != nil {
		return []string{"undecodable"}
	}
	if len(rn.Keys) != len(rn.Vals) || (len(rn.Links) != 0 && len(rn.Links) != len(rn.Keys)+1) {
		out = append(out, "count-mismatch")
	}
	var keys []interface{}
	for _, rk := range rn.Keys {
		k, err := cfg.KS.Dec(rk)
		if err != nil {
			return append(out, "undecodable")
		}
		keys = append(keys, k)
	}
	for i := 1; i < len(keys); i++ {
		cmp := cfg.KS.Cmp(keys[i-1], keys[i])
		if c.reverse {
			cmp = -cmp
		}
		if cmp >= 0 {
			out = append(out, "not-ascending")
			break
		}
	}
	for _, k := range keys {
		if c.root.BranchFactor >= 2 && cfg.KS.Layer(k, c.root.BranchFactor) < c.root.Height {
			out = append(out, "layer-below-height")
			break
		}
	}
	return out
}

func c19Cases(cfg *world.Config, v *version) []*c19Case {
	var cs []*c19Case
	base := *v.root
	mk := func(kind, name string, f func(c *c19Case)) {
		c := &c19Case{name: name, root: base, store: map[string][]byte{}, kind: kind}
		if base.Link != nil {
			l := *base.Link
			c.root.Link = &l
		}
		f(c)
		cs = append(cs, c)
	}
	mk("identity", "unperturbed", func(c *c19Case) {})
	for _, nf := range []string{"v2", "V1Marshaler", "v1.1.5", "binary", " "} {
		mk("format", "NodeFormat="+nf, func(c *c19Case) { c.root.NodeFormat = nf })
	}
	other := ref.FormatBinary
	if cfg.Format == ref.FormatBinary {
		other = ref.FormatMarshaler
	}
	mk("format-swap", "NodeFormat="+other, func(c *c19Case) { c.root.NodeFormat = other })
	if v.link == "" {
		return cs
	}
	top, _ := v.w.Store.Has(v.link)
	codec := codecFor(cfg)
	rn, _ := codec.Decode(top)
	mk("missing", "top node removed", func(c *c19Case) { c.remove = v.link })
	mk("missing", "link is the empty string although the root records entries", func(c *c19Case) { l := ""; c.root.Link = &l })
	mk("missing", "link to a name never written", func(c *c19Case) { l := "AAAAAAAAAAAAAAAAAAAAAAAAAAAAAAAAAAAAAAAAAAA"; c.root.Link = &l })
	for n := 0; n < len(top); n++ {
		n := n
		mk("prefix", fmt.Sprintf("top node truncated to %d of %d bytes", n, len(top)), func(c *c19Case) { c.store[v.link] = append([]byte{}, top[:n]...) })
	}
	// every framing (nK, nV, nL) in {0..3}^3 built from this node's own elements
	elemK := func(i int) []byte {
		if i < len(rn.Keys) {
			return rn.Keys[i]
		}
		b, _ := json.Marshal(cfg.Keys[i%len(cfg.Keys)])
		return b
	}
	elemV := func(i int) []byte {
		if i < len(rn.Vals) {
			return rn.Vals[i]
		}
		b, _ := json.Marshal(cfg.Vals[0])
		return b
	}
	for nK := 0; nK <= 3; nK++ {
		for nV := 0; nV <= 3; nV++ {
			for nL := 0; nL <= 4; nL++ {
				if nK == nV && (nL == 0 || nL == nK+1) {
					continue
				}
				var ks, vs [][]byte
				var ls []string
				for i := 0; i < nK; i++ {
					ks = append(ks, elemK(i))
				}
				for i := 0; i < nV; i++ {
					vs = append(vs, elemV(i))
				}
				for i := 0; i < nL; i++ {
					if i < len(rn.Links) && rn.Links[i] != "" {
						ls = append(ls, rn.Links[i])
					} else if i == 0 {
						// a non-nil link keeps the list from being trimmed; it must not point back
						// at the top node itself (content addressing cannot produce a cycle)
						ls = append(ls, "BBBBBBBBBBBBBBBBBBBBBBBBBBBBBBBBBBBBBBBBBBB")
					} else {
						ls = append(ls, "")
					}
				}
				b, err := rawEncodeNoTrim(codec, ks, vs, ls)
				if err != nil {
					continue
				}
				mk("counts", fmt.Sprintf("top node reframed with %d keys, %d values, %d links", nK, nV, nL), func(c *c19Case) { c.store[v.link] = b })
			}
		}
	}
	// lengths no buffer can hold (binary format): an element count or a body length of 2^62, 2^63 (negative as an
	// int), 2^64-1, at the start of the node, in its first key, after its keys, in its link section. (2^40 and the
	// like are left out on purpose: an unguarded decoder would try to allocate terabytes, which nothing can recover from.)
	if cfg.Format == ref.FormatBinary {
		uv := func(x uint64) []byte {
			var tmp [binary.MaxVarintLen64]byte
			return append([]byte{}, tmp[:binary.PutUvarint(tmp[:], x)]...)
		}
		// offsets at which a length starts in the real top node: walk it with the reference framing
		var offs []int
		{
			b := top
			pos := 0
			rd := func() (uint64, bool) {
				x, k := binary.Uvarint(b[pos:])
				if k <= 0 {
					return 0, false
				}
				offs = append(offs, pos)
				pos += k
				return x, true
			}
			for sec := 0; sec < 3; sec++ {
				n, ok := rd()
				if !ok {
					break
				}
				for i := uint64(0); i < n; i++ {
					l, ok := rd()
					if !ok || pos+int(l) > len(b) {
						break
					}
					pos += int(l)
				}
			}
		}
		for _, x := range []uint64{1 << 62, 1 << 63, math.MaxUint64} {
			x := x
			for oi, off := range offs {
				if oi > 3 && oi != len(offs)-1 && oi != len(offs)/2 {
					continue // the first lengths, one in the middle, the last one
				}
				off := off
				mk("huge-length", fmt.Sprintf("top node with the length at byte %d replaced by %d", off, x), func(c *c19Case) {
					_, k := binary.Uvarint(top[off:])
					nb := append(append(append([]byte{}, top[:off]...), uv(x)...), top[off+k:]...)
					c.store[v.link] = nb
				})
			}
		}
	}
	// key permutations / duplications
	if len(rn.Keys) >= 2 {
		n := len(rn.Keys)
		perm := make([]int, n)
		var rec func(i int)
		count := 0
		rec = func(i int) {
			if count > 30 {
				return
			}
			if i == n {
				ident := true
				for j := range perm {
					if perm[j] != j {
						ident = false
					}
				}
				if ident {
					return
				}
				count++
				var ks, vs [][]byte
				for _, p := range perm {
					ks = append(ks, rn.Keys[p])
					vs = append(vs, rn.Vals[p])
				}
				b, _ := rawEncodeNoTrim(codec, ks, vs, rn.Links)
				p2 := append([]int{}, perm...)
				mk("order", fmt.Sprintf("top node keys rearranged as %v", p2), func(c *c19Case) { c.store[v.link] = b })
				return
			}
			for p := 0; p < n; p++ { // with repetition: permutations and duplications
				perm[i] = p
				rec(i + 1)
			}
		}
		rec(0)
		mk("order", "loader uses the reversed key order", func(c *c19Case) { c.reverse = true })
		// RemoteConfig.KeyCompare documents no range: a comparator written as a subtraction answers with any magnitude
		mk("order", "loader uses the reversed key order and answers -7 / 0 / +7", func(c *c19Case) { c.reverse, c.wide = true, 7 })
		mk("order", "loader uses the reversed key order and answers -2 / 0 / +2", func(c *c19Case) { c.reverse, c.wide = true, 2 })
	}
	for h := 0; h <= int(base.Height)+3; h++ {
		if h == int(base.Height) {
			continue
		}
		h := h
		mk("height", fmt.Sprintf("Height=%d (was %d)", h, base.Height), func(c *c19Case) { c.root.Height = uint8(h) })
	}
	for _, bf := range []uint{2, 3, 4, 5, 16} {
		if bf == base.BranchFactor {
			continue
		}
		bf := bf
		mk("branchfactor", fmt.Sprintf("BranchFactor=%d (was %d)", bf, base.BranchFactor), func(c *c19Case) { c.root.BranchFactor = bf })
	}
	return cs
}

// rawEncodeNoTrim encodes without the all-nil trimming (the link list is written as given).
func rawEncodeNoTrim(c *ref.Codec, ks, vs [][]byte, ls []string) ([]byte, error) {
	allNil := true
	for _, l := range ls {
		if l != "" {
			allNil = false
		}
	}
	if !allNil || len(ls) == 0 {
		return c.EncodeRaw(ks, vs, ls)
	}
	return nil, fmt.Errorf("would be trimmed")
}

type c19Stats struct{ cases, judged, rejected, panics int64 }

func c19Version(cfg *world.Config, v *version, acc *pairAcc, st *c19Stats) {
	// "its top node is missing": the configured store does not hold the node, while a node cache shared with
	// ANOTHER store (other NodeURLPrefix) that does hold it is warm. What another store has is not in this one.
	if v.link != "" {
		for _, how := range []string{"load", "flush"} {
			cache := env.NewCache(env.CacheBig)
			warm := v.w.RemoteConfig(v.w.Store, false)
			warm.NodeCache = cache
			ok := false
			if how == "load" {
				if wt, err := v.root.LoadMast(ctx, warm); err == nil {
					v.w.ReadContents(wt)
					ok = true
				}
			} else {
				src := env.NewStore(v.w.Store.Prefix)
				wcfg := v.w.RemoteConfig(src, false)
				wcfg.NodeCache = cache
				r := guardRes(func() error {
					wt, err := mast.NewRoot(cfg.CreateOptions()).LoadMast(ctx, wcfg)
					if err != nil {
						return err
					}
					for k, vi := range v.c.M {
						if err := wt.Insert(ctx, cfg.FreshKey(k), cfg.FreshVal(vi)); err != nil {
							return err
						}
					}
					nr, err := wt.MakeRoot(ctx)
					ok = err == nil && nr.Link != nil && *nr.Link == v.link
					return err
				})
				ok = ok && r.Err == nil && r.Panic == nil
			}
			if !ok {
				continue
			}
			elsewhere := env.NewStore("mem://elsewhere/")
			rc := v.w.RemoteConfig(elsewhere, false)
			rc.NodeCache = cache
			atomic.AddInt64(&st.cases, 1)
			atomic.AddInt64(&st.judged, 1)
			r := guardRes(func() (err error) { _, err = v.root.LoadMast(ctx, rc); return })
			if r.Err == nil || r.Panic != nil {
				acc.add(cfg, "C19", []explore.Finding{{Sig: "C19|missing|top-node-not-in-the-configured-store|" + resClass(r) + "|cache-shared-with-another-store", What: "LoadMast accepted a root whose top node is not in the configured store: a node cache shared with another store (different NodeURLPrefix) that holds the node answered for it", Detail: r.String()}},
					[]string{fmt.Sprintf("version %v", v.c), "cache warmed through store " + v.w.Store.Prefix + " by a " + how + "; root then loaded against an empty store mem://elsewhere/ with the same cache"})
			} else {
				atomic.AddInt64(&st.rejected, 1)
			}
		}
	}
	for _, c := range c19Cases(cfg, v) {
		atomic.AddInt64(&st.cases, 1)
		clauses := c19Clauses(cfg, v.w.Store, c)
		// a private store: base contents + overrides - removal
		stc := env.NewStore(v.w.Store.Prefix)
		for _, n := range v.w.Store.Names() {
			if n == c.remove {
				continue
			}
			b, _ := v.w.Store.Has(n)
			stc.M[n] = b
		}
		for n, b := range c.store {
			stc.M[n] = b
		}
		rc := v.w.RemoteConfig(stc, false)
		if c.reverse {
			base := mast.DefaultKeyCompare(json.Marshal)
			wide := c.wide
			rc.KeyCompare = func(a, b interface{}) (int, error) {
				r, err := base(b, a)
				if wide > 0 {
					r *= wide
				}
				return r, err
			}
		}
		root := c.root
		var t *mast.Mast
		r := guardRes(func() (err error) { t, err = root.LoadMast(ctx, rc); return })
		vdesc := fmt.Sprint(v.c)
		if len(v.c.M) > 12 {
			vdesc = fmt.Sprintf("all %d keys of %s", len(v.c.M), cfg.Name)
		}
		desc := []string{fmt.Sprintf("version %s (height %d, %s)", vdesc, v.root.Height, cfg.Format), "perturbation: " + c.name}
		// the same mismatch must also be rejected when a shared node cache already holds the
		// (unperturbed) top node: only for perturbations that leave the stored bytes alone
		// (clauses about the stored bytes - undecodable, counts, missing - are not judged here: a
		// cache hit legitimately skips decoding; only order and layer mismatches are)
		if len(clauses) > 0 && (c.kind == "order" || c.kind == "height" || c.kind == "branchfactor") && len(c.store) == 0 && c.remove == "" && c.root.Link != nil && *c.root.Link == v.link && r.Err != nil && r.Panic == nil {
			for _, how := range []string{"warmed by loading the unperturbed root", "filled by the writer's own MakeRoot"} {
				cache := env.NewCache(env.CacheBig)
				warm := v.w.RemoteConfig(stc, false)
				warm.NodeCache = cache
				ok := false
				if how[0] == 'w' {
					if wt, err := v.root.LoadMast(ctx, warm); err == nil {
						v.w.ReadContents(wt)
						ok = true
					}
				} else {
					// the same contents written again through the cache: the nodes enter it from the writer's
					// flush (never decoded, never checked by a load) under the same names
					r := guardRes(func() error {
						wt, err := mast.NewRoot(cfg.CreateOptions()).LoadMast(ctx, warm)
						if err != nil {
							return err
						}
						for k, vi := range v.c.M {
							if err := wt.Insert(ctx, cfg.FreshKey(k), cfg.FreshVal(vi)); err != nil {
								return err
							}
						}
						nr, err := wt.MakeRoot(ctx)
						if err != nil {
							return err
						}
						ok = nr.Link != nil && *nr.Link == v.link
						return nil
					})
					ok = ok && r.Err == nil && r.Panic == nil
				}
				if !ok {
					continue
				}
				rc2 := *rc
				rc2.NodeCache = cache
				atomic.AddInt64(&st.cases, 1)
				atomic.AddInt64(&st.judged, 1)
				r2 := guardRes(func() (err error) { _, err = root.LoadMast(ctx, &rc2); return })
				if r2.Panic != nil || r2.Err == nil {
					sym := "accepted"
					if r2.Panic != nil {
						sym = "panic-instead-of-error"
					}
					acc.add(cfg, "C19", []explore.Finding{{Sig: fmt.Sprintf("C19|%s|%s|%s|top-node-in-shared-cache", c.kind, clauses[0], sym),
						What: "LoadMast did not reject a root that does not match (" + clauses[0] + ") when the top node was already in the shared node cache", Detail: fmt.Sprintf("clauses %v: %v", clauses, r2)}}, append(desc, "with a node cache "+how))
				} else {
					atomic.AddInt64(&st.rejected, 1)
				}
			}
		}
		if len(clauses) == 0 {
			if c.kind == "identity" && (r.Err != nil || r.Panic != nil) {
				acc.add(cfg, "C19", []explore.Finding{{Sig: "C19|unperturbed-root-rejected|" + resClass(r), What: "LoadMast rejected a root exactly as MakeRoot returned it", Detail: r.String()}}, desc)
			}
			continue
		}
		atomic.AddInt64(&st.judged, 1)
		if (c.kind == "counts" || c.kind == "order" || c.kind == "height") && len(v.c.M) >= 3 && acc.wantSample() {
			acc.sample(map[string]interface{}{"config": cfg.Name, "version": v.c.String(), "perturbation": c.name, "clauses_that_hold": clauses, "LoadMast_returned": r.String()})
		}
		if r.Panic != nil {
			atomic.AddInt64(&st.panics, 1)
			acc.add(cfg, "C19", []explore.Finding{{Sig: fmt.Sprintf("C19|%s|%s|panic-instead-of-error|%s", c.kind, clauses[0], report.Norm(fmt.Sprint(r.Panic))),
				What: "LoadMast panicked instead of returning an error for a root that does not match (" + clauses[0] + ")", Detail: fmt.Sprintf("clauses %v: %v", clauses, r.Panic)}}, desc)
			continue
		}
		if r.Err == nil {
			_ = t
			acc.add(cfg, "C19", []explore.Finding{{Sig: fmt.Sprintf("C19|%s|%s|accepted", c.kind, clauses[0]),
				What: "LoadMast returned a tree for a root that does not match (" + clauses[0] + ")", Detail: fmt.Sprintf("clauses %v", clauses)}}, desc)
			continue
		}
		atomic.AddInt64(&st.rejected, 1)
	}
}

func C19Configs(thorough bool) []*world.Config {
	B, M := ref.FormatBinary, ref.FormatMarshaler
	cs := []*world.Config{
		world.UintCfg(2, urange(1, 6), 1, B, "none"),
		world.UintCfg(2, urange(1, 5), 1, M, "none"),
		world.UintCfg(4, ulist(1, 2, 3, 4, 8, 16), 1, B, "none"),
		world.LKeyCfg(2, []uint8{0, 2, 0, 1, 2}, 1, M, "none"),
		world.LKeyCfg(2, []uint8{1, 1, 1, 1, 1}, 1, B, "none"),
		world.StringCfg(2, []uint8{0, 1, 0, 2}, B, "none"),
	}
	if thorough {
		cs = append(cs, world.UintCfg(2, urange(0, 8), 1, B, "none"), world.UintCfg(3, ulist(1, 2, 3, 4, 6, 9, 18), 1, M, "none"), world.UintCfg(16, ulist(1, 2, 3, 16, 32, 256), 1, B, "none"))
		for _, l := range allLayerAssignments(4, 3) {
			cs = append(cs, world.LKeyCfg(2, l, 1, B, "none"))
		}
	}
	return cs
}

func C19(run *report.Run) {
	acc := &pairAcc{}
	st := &c19Stats{}
	for _, cfg := range C19Configs(run.Thorough()) {
		vs, err := allVersions(cfg)
		if err != nil {
			run.HarnessError("%s: %v", cfg.Name, err)
			continue
		}
		parallelFor(len(vs), func(i int) { c19Version(cfg, vs[i], acc, st) })
		run.Parts = append(run.Parts, map[string]interface{}{"config": cfg.Name, "versions": len(vs)})
	}
	// top nodes with hundreds of keys (a count that wraps an 8-bit or overflows a small buffer must not let a root
	// through): 255, 256, 257 and 512 keys of layer 0 in one node at branch factor 16 (heights perturbed upwards),
	// and 256 keys that are multiples of 4 but not of 16 at branch factor 4 (all in the top node of a height-1
	// tree; read with branch factor 16 their layers drop below the recorded height)
	for _, wc := range []struct {
		bf   uint
		n    int
		step uint
		off  uint
	}{{16, 255, 2, 1}, {16, 256, 2, 1}, {16, 257, 2, 1}, {16, 512, 2, 1}, {4, 256, 16, 4}} {
		var keys []interface{}
		for i := 0; i < wc.n; i++ {
			keys = append(keys, wc.off+uint(i)*wc.step)
		}
		cfg := world.UintCfg(wc.bf, keys, 1, ref.FormatBinary, "none")
		cfg.Name = fmt.Sprintf("wide-top-node/%d uint keys from %d step %d/bf%d", wc.n, wc.off, wc.step, wc.bf)
		all := make([]int, wc.n)
		for i := range all {
			all[i] = i
		}
		v, err := buildSubsetVersion(cfg, all, 0)
		if err != nil {
			run.HarnessError("%s: %v", cfg.Name, err)
			continue
		}
		c19Version(cfg, v, acc, st)
		run.Parts = append(run.Parts, map[string]interface{}{"config": cfg.Name, "versions": 1, "height": v.root.Height, "nodes": len(v.reach)})
	}
	acc.flush(run)
	run.Evals = st.cases
	run.Distinct = st.judged
	run.Extra["rejected_with_error"] = st.rejected
	run.Extra["panics"] = st.panics
	run.AddSample(map[string]interface{}{"root": "every persisted version of the universe (every subset of keys)", "perturbations": "unknown NodeFormat strings; link to an absent name; top node replaced by each proper prefix of its bytes, by every (nK,nV,nL) framing with mismatched counts, by rearranged/duplicated keys; reversed loader KeyCompare; Height in 0..H+3; BranchFactor in {2,3,4,5,16}",
		"oracle": "the reference decoder/order/layer functions evaluate the property's clauses on the perturbed top node; if one holds LoadMast must return an error"})
	run.Rule = "exhaustive enumeration of (persisted version x perturbation); distinct_nontrivial = cases in which at least one clause of the property holds (only those are judged)"
}
