package checks

import (
	"bytes"
	"fmt"
	"strings"

	"github.com/jrhy/mast"
	"verifharness/explore"
	"verifharness/report"
	"verifharness/world"
)

// C18 part C: explicit-state search over call histories of one backend object.
//
// Alphabet: Store(n) for three names (each name has its own payload: empty, all 256
// byte values, 5000 bytes), Load(n) for those and one name that is never written and,
// on the S3 backend, the same calls with the one client request they make answered by
// an error, and Load with a body that fails mid-stream. The reference model is a map.
// A state is the model plus, per name, whether a Store / a Load was attempted and
// whether it failed (anything a backend could remember); successors are computed by
// replaying the shortest history on a fresh backend object and executing one more call.
// In every new state the whole backend is observed: every name loads per the model,
// and the S3 object map is exactly {bucket/prefix+name: bytes}.

type c18Op struct {
	Kind string // store | load | store!err | load!err | load!body
	N    int
}

func (o c18Op) String() string { return fmt.Sprintf("%s(n%d)", o.Kind, o.N) }

type c18Model struct {
	stored      [4]bool
	storeTried  [4]bool
	storeFailed [4]bool
	loadTried   [4]bool
	loadFailed  [4]bool
}

func (m c18Model) key() string { return fmt.Sprint(m) }

var c18BfsNames = []string{"A", "qynm3BZ1XQBx66NJ69oiXRXk-RDLR0VJxH6Vy4XsxNY", "z-", "never-written"}

func c18BfsPayloads() [][]byte {
	all := make([]byte, 256)
	for i := range all {
		all[i] = byte(i)
	}
	big := make([]byte, 5000)
	for i := range big {
		big[i] = byte(i*13 + 1)
	}
	return [][]byte{{}, all, big, nil}
}

type c18Live struct {
	p       mast.Persist
	fs      *fakeS3
	cleanup func()
	// every slice a Load of this history returned (kept, not copied): the caller owns what Load returns, so
	// later calls on the backend must leave those bytes alone
	held []c18Held
}

type c18Held struct {
	n int
	b []byte
}

// heldIntact checks every slice returned by an earlier Load of the history against what was stored.
func (l *c18Live) heldIntact(payloads [][]byte) (int, bool) {
	for _, h := range l.held {
		if !bytes.Equal(h.b, payloads[h.n]) {
			return h.n, false
		}
	}
	return 0, true
}

// step executes one call on the live backend, updates the model and judges the result.
func c18Step(b backend, l *c18Live, m *c18Model, op c18Op, payloads [][]byte) (findings []explore.Finding) {
	name := c18BfsNames[op.N]
	bad := func(sig, what, detail string) {
		findings = append(findings, explore.Finding{Sig: "C18|" + b.name[:2] + "|bfs|" + sig, What: b.name + ": " + what, Detail: detail})
	}
	ncalls := 0
	if l.fs != nil {
		ncalls = len(l.fs.calls)
		l.fs.failAt, l.fs.bodyFail = nil, nil
		switch op.Kind {
		case "store!err", "load!err":
			l.fs.failAt = map[int]bool{l.fs.n: true}
		case "load!body":
			l.fs.bodyFail = map[int]bool{l.fs.n: true}
		}
	}
	switch op.Kind {
	case "store", "store!err":
		err := l.p.Store(ctx, name, payloads[op.N])
		m.storeTried[op.N] = true
		if op.Kind == "store" {
			if err != nil {
				bad("store-failed-on-healthy-backend", "Store failed on a healthy backend", err.Error())
			} else {
				m.stored[op.N] = true
			}
		} else {
			m.storeFailed[op.N] = true
			if err == nil {
				bad("store-error-not-returned", "the backend's error was not returned by Store", "PUT answered with an error, Store returned nil")
			}
		}
		if l.fs != nil {
			if got := l.fs.calls[ncalls:]; len(got) != 1 || got[0] != "PUT "+b.bucket+" "+b.prefix+name {
				bad("s3-object-addressing", "Store did not issue exactly one PUT of bucket/prefix+name", fmt.Sprint(got))
			}
		}
	default:
		got, err := l.p.Load(ctx, name)
		m.loadTried[op.N] = true
		wantErr := !m.stored[op.N] || op.Kind != "load"
		if op.Kind != "load" {
			m.loadFailed[op.N] = true
		}
		switch {
		case wantErr && err == nil:
			what := "loading a name never written returned data instead of an error"
			sig := "missing-name-loads-without-error"
			if m.stored[op.N] {
				what, sig = "the backend's error was not returned by Load", "load-error-not-returned|"+op.Kind
			}
			bad(sig, what, fmt.Sprintf("%d bytes", len(got)))
		case !wantErr && err != nil:
			bad("load-failed", "a stored name does not load", err.Error())
		case !wantErr && !bytes.Equal(got, payloads[op.N]):
			bad("load-returns-other-bytes", "a stored name loads with other bytes than were stored", fmt.Sprintf("%d bytes, want %d", len(got), len(payloads[op.N])))
		case !wantErr:
			l.held = append(l.held, c18Held{op.N, got})
		}
		if l.fs != nil {
			if got := l.fs.calls[ncalls:]; len(got) != 1 || got[0] != "GET "+b.bucket+" "+b.prefix+name {
				bad("s3-object-addressing", "Load did not issue exactly one GET of bucket/prefix+name", fmt.Sprint(got))
			}
		}
	}
	if l.fs != nil {
		l.fs.failAt, l.fs.bodyFail = nil, nil
	}
	if n, ok := l.heldIntact(payloads); !ok {
		bad("bytes-returned-by-an-earlier-load-changed", "the bytes an earlier Load returned were modified by a later call on the backend", "name "+c18BfsNames[n])
	}
	return findings
}

// c18Observe loads every name and compares the whole backend with the model.
func c18Observe(b backend, l *c18Live, m *c18Model, payloads [][]byte) (findings []explore.Finding) {
	bad := func(sig, what, detail string) {
		findings = append(findings, explore.Finding{Sig: "C18|" + b.name[:2] + "|bfs|" + sig, What: b.name + ": " + what, Detail: detail})
	}
	for i, n := range c18BfsNames {
		got, err := l.p.Load(ctx, n)
		switch {
		case m.stored[i] && (err != nil || !bytes.Equal(got, payloads[i])):
			bad("state-stored-name-not-loadable", "a name whose Store succeeded earlier in the history does not load with its bytes", fmt.Sprintf("%s: err %v, %d bytes", n, err, len(got)))
		case !m.stored[i] && err == nil:
			bad("state-unstored-name-loads", "a name without a successful Store loads without error", fmt.Sprintf("%s: %d bytes", n, len(got)))
		case m.stored[i]:
			l.held = append(l.held, c18Held{i, got})
		}
	}
	// twice over, so that every held slice has seen a later Load of every name
	for i, n := range c18BfsNames {
		if m.stored[i] {
			if got, err := l.p.Load(ctx, n); err == nil && bytes.Equal(got, payloads[i]) {
				l.held = append(l.held, c18Held{i, got})
			}
		}
	}
	if n, ok := l.heldIntact(payloads); !ok {
		bad("bytes-returned-by-an-earlier-load-changed", "the bytes an earlier Load returned were modified by a later call on the backend", "name "+c18BfsNames[n])
	}
	if l.fs != nil {
		want := map[string]bool{}
		for i, n := range c18BfsNames {
			if m.stored[i] {
				k := b.bucket + "\x00" + b.prefix + n
				want[k] = true
				if !bytes.Equal(l.fs.objects[k], payloads[i]) {
					bad("s3-object-content", "the object bucket/prefix+name does not hold exactly the stored bytes", n)
				}
			}
		}
		for k := range l.fs.objects {
			if !want[k] {
				bad("s3-object-addressing", "an object exists outside the set bucket/prefix+name of stored names", strings.ReplaceAll(k, "\x00", "/"))
			}
		}
	}
	return findings
}

func c18BfsOps(b backend) []c18Op {
	var ops []c18Op
	for n := 0; n < 3; n++ {
		ops = append(ops, c18Op{"store", n})
	}
	for n := 0; n < 4; n++ {
		ops = append(ops, c18Op{"load", n})
	}
	if b.bucket != "" {
		for n := 0; n < 3; n++ {
			ops = append(ops, c18Op{"store!err", n})
		}
		for n := 0; n < 4; n++ {
			ops = append(ops, c18Op{"load!err", n})
		}
		for n := 1; n < 3; n++ {
			ops = append(ops, c18Op{"load!body", n})
		}
	}
	return ops
}

func c18Bfs(run *report.Run, acc *pairAcc, tmpBase string) {
	cfg := &world.Config{Name: "backends"}
	payloads := c18BfsPayloads()
	var states, transitions int64
	for _, b := range c18Backends(tmpBase) {
		ops := c18BfsOps(b)
		replay := func(hist []c18Op) (*c18Live, *c18Model, [][]explore.Finding) {
			p, fs, cleanup := b.mk()
			l := &c18Live{p: p, fs: fs, cleanup: cleanup}
			m := &c18Model{}
			var fss [][]explore.Finding
			for _, op := range hist {
				fss = append(fss, c18Step(b, l, m, op, payloads))
			}
			return l, m, fss
		}
		descr := func(hist []c18Op) []string {
			out := []string{"backend " + b.name}
			for _, o := range hist {
				out = append(out, o.String())
			}
			return out
		}
		seen := map[string]bool{(&c18Model{}).key(): true}
		frontier := [][]c18Op{{}}
		bstates, btrans, depth := int64(1), int64(0), 0
		for len(frontier) > 0 {
			var next [][]c18Op
			for _, hist := range frontier {
				for _, op := range ops {
					if op.Kind == "load!body" {
						// only meaningful once the name is stored (there is a body to cut)
						_, m, _ := replayModelOnly(hist)
						if !m.stored[op.N] {
							continue
						}
					}
					h2 := append(append([]c18Op{}, hist...), op)
					l, m, fss := replay(h2)
					btrans++
					acc.add(cfg, "C18", fss[len(fss)-1], descr(h2))
					k := m.key()
					if !seen[k] {
						seen[k] = true
						bstates++
						next = append(next, h2)
						acc.add(cfg, "C18", c18Observe(b, l, m, payloads), append(descr(h2), "then every name is loaded"))
					}
					l.cleanup()
				}
			}
			frontier = next
			if len(next) > 0 {
				depth++
			}
		}
		states += bstates
		transitions += btrans
		run.Parts = append(run.Parts, map[string]interface{}{"part": "C: call histories of one backend object (explicit-state BFS to closure)", "backend": b.name, "alphabet": len(ops), "states": bstates, "transitions": btrans, "depth": depth})
	}
	run.States += states
	run.Transitions += transitions
	run.Validated += transitions
	hs := []string{}
	for _, o := range []c18Op{{"store!err", 1}, {"load", 1}, {"store", 1}, {"load!body", 1}, {"load", 1}} {
		hs = append(hs, o.String())
	}
	run.AddSample(map[string]interface{}{"part": "C", "one_history": hs, "names": c18BfsNames, "payload_sizes": []int{0, 256, 5000},
		"oracle": "each call's result against a map model; in every new state every name is loaded and (S3) the object map compared with the model"})
}

// replayModelOnly computes the model a history leads to without touching a backend
// (valid because the model's transitions do not depend on the backend's answers on a
// conforming backend; on a non-conforming one a finding has already been recorded).
func replayModelOnly(hist []c18Op) (struct{}, *c18Model, struct{}) {
	m := &c18Model{}
	for _, op := range hist {
		switch op.Kind {
		case "store":
			m.storeTried[op.N] = true
			m.stored[op.N] = true
		case "store!err":
			m.storeTried[op.N] = true
			m.storeFailed[op.N] = true
		case "load":
			m.loadTried[op.N] = true
		default:
			m.loadTried[op.N] = true
			m.loadFailed[op.N] = true
		}
	}
	return struct{}{}, m, struct{}{}
}
