package checks

import (
	"fmt"
	"os"
	"os/exec"
	"path/filepath"
	"strconv"
	"strings"
	"sync/atomic"
	"syscall"
	"unsafe"

	"os/signal"

	"github.com/jrhy/mast"
	"github.com/jrhy/mast/persist/file"
	"verifharness/explore"
	"verifharness/ref"
	"verifharness/report"
	"verifharness/world"
)

// Part E of C03 (engine X): MakeRoot onto the real file store while the kernel refuses to let any file
// grow beyond N bytes (RLIMIT_FSIZE = N, SIGXFSZ ignored: write(2) stops at byte N and then fails with
// EFBIG). Every node of the version larger than N fails part-way, the smaller ones go through. One child
// process per (format, N), N = every byte count from 0 to one past the largest node.

func c03FileKeys() ([]int, []interface{}) {
	// values of different lengths so that the nodes of the version have many different sizes
	vals := []interface{}{"a", strings.Repeat("b", 23), strings.Repeat("c", 61), strings.Repeat("d", 140), strings.Repeat("e", 7)}
	return []int{1, 2, 3, 4, 5, 6, 7, 8, 9}, vals
}

func c03FileTree(dir, format string) (*mast.Mast, *world.Config, error) {
	keys, vals := c03FileKeys()
	cfg := world.IntCfg(2, keys, vals, "", format, "none")
	p := file.NewPersistForPath(dir)
	rc := &mast.RemoteConfig{KeysLike: 0, ValuesLike: "", StoreImmutablePartsWith: p}
	t, err := mast.NewRoot(cfg.CreateOptions()).LoadMast(ctx, rc)
	if err != nil {
		return nil, nil, err
	}
	for i, k := range keys {
		if err := t.Insert(ctx, k, vals[i%len(vals)]); err != nil {
			return nil, nil, err
		}
	}
	return t, cfg, nil
}

func c03FileWalk(cfg *world.Config, dir string, root *mast.Root) error {
	get := func(n string) ([]byte, bool) {
		b, err := os.ReadFile(filepath.Join(dir, n))
		return b, err == nil
	}
	sn, err := codecFor(cfg).Walk(cfg.KS, get, linkOf(root), nil)
	if err != nil {
		return err
	}
	if n := ref.CountEntries(sn); uint64(n) != root.Size {
		return fmt.Errorf("%d entries reachable, root says %d", n, root.Size)
	}
	return nil
}

// C03FileChild: args dir format limit. Exit codes: 0 MakeRoot succeeded and the version is complete; 10 MakeRoot
// reported the failure, the tree is intact and a retry without the limit completes the version; 24.. violations.
func C03FileChild(args []string) int {
	dir, format := args[0], args[1]
	limit, _ := strconv.Atoi(args[2])
	kill := len(args) > 3 && args[3] == "kill"
	if kill {
		// the kernel's default disposition of SIGXFSZ (terminate): the process dies at the byte where a write is
		// cut - a crash in the middle of MakeRoot (see C17Child)
		type sigaction struct {
			handler  uintptr
			flags    uint64
			restorer uintptr
			mask     uint64
		}
		sa := sigaction{}
		if _, _, e := syscall.RawSyscall6(syscall.SYS_RT_SIGACTION, uintptr(syscall.SIGXFSZ), uintptr(unsafe.Pointer(&sa)), 0, 8, 0, 0); e != 0 {
			return 3
		}
	} else {
		signal.Ignore(syscall.SIGXFSZ)
	}
	t, cfg, err := c03FileTree(dir, format)
	if err != nil {
		return 3
	}
	var old syscall.Rlimit
	if err := syscall.Getrlimit(syscall.RLIMIT_FSIZE, &old); err != nil {
		return 3
	}
	if limit >= 0 {
		if err := syscall.Setrlimit(syscall.RLIMIT_FSIZE, &syscall.Rlimit{Cur: uint64(limit), Max: old.Max}); err != nil {
			return 3
		}
	}
	var root *mast.Root
	r1 := guardRes(func() (err error) { root, err = t.MakeRoot(ctx); return })
	if err := syscall.Setrlimit(syscall.RLIMIT_FSIZE, &old); err != nil {
		return 3
	}
	if r1.Panic != nil {
		return 27
	}
	if r1.Err == nil {
		if err := c03FileWalk(cfg, dir, root); err != nil {
			fmt.Println(err)
			return 24 // success reported, version not completely in the store
		}
		return 0
	}
	// the failure was reported: the tree still answers, and a retry completes the version
	if t.Size() != 9 {
		return 25
	}
	var v string
	if ok, err := t.Get(ctx, 4, &v); err != nil || !ok {
		return 25
	}
	r2 := guardRes(func() (err error) { root, err = t.MakeRoot(ctx); return })
	if r2.Err != nil || r2.Panic != nil {
		fmt.Println(r2)
		return 26
	}
	if err := c03FileWalk(cfg, dir, root); err != nil {
		fmt.Println(err)
		return 28 // the retry reported success, the version is still not complete
	}
	return 10
}

func c03FileBackend(run *report.Run, acc *pairAcc) {
	self, err := os.Executable()
	if err != nil {
		run.HarnessError("executable: %v", err)
		return
	}
	base, err := os.MkdirTemp("", "verif-c03file-")
	if err != nil {
		run.HarnessError("tempdir: %v", err)
		return
	}
	defer os.RemoveAll(base)
	type job struct {
		format string
		limit  int
		kill   bool
	}
	var jobs []job
	maxNode := map[string]int{}
	for _, f := range []string{ref.FormatBinary, ref.FormatMarshaler} {
		// size of the largest node: a fault-free run in this process
		d, _ := os.MkdirTemp(base, "probe")
		t, _, err := c03FileTree(d, f)
		if err != nil {
			run.HarnessError("file backend tree: %v", err)
			return
		}
		if _, err := t.MakeRoot(ctx); err != nil {
			run.HarnessError("file backend MakeRoot without a limit: %v", err)
			return
		}
		ents, _ := os.ReadDir(d)
		for _, e := range ents {
			if fi, err := e.Info(); err == nil && int(fi.Size()) > maxNode[f] {
				maxNode[f] = int(fi.Size())
			}
		}
		for n := 0; n <= maxNode[f]+1; n++ {
			jobs = append(jobs, job{f, n, false}, job{f, n, true})
		}
	}
	var runs, failedReported, succeeded, crashed int64
	cfg := &world.Config{Name: "persist/file under MakeRoot"}
	parallelFor(len(jobs), func(i int) {
		j := jobs[i]
		dir, err := os.MkdirTemp(base, "d")
		if err != nil {
			return
		}
		defer os.RemoveAll(dir)
		if j.kill {
			// the process dies in the middle of MakeRoot; a new process builds the same version over the same
			// directory and persists it: that attempt succeeds only with every node complete
			err := exec.Command(self, "c03-file-child", dir, j.format, strconv.Itoa(j.limit), "kill").Run()
			atomic.AddInt64(&runs, 1)
			if ee, ok := err.(*exec.ExitError); ok && ee.ExitCode() < 0 {
				atomic.AddInt64(&crashed, 1)
			}
			out, err := exec.Command(self, "c03-file-child", dir, j.format, "-1").CombinedOutput()
			code := 0
			if ee, ok := err.(*exec.ExitError); ok {
				code = ee.ExitCode()
			}
			if code != 0 && code != 3 {
				acc.add(cfg, "C03", []explore.Finding{{Sig: fmt.Sprintf("C03|file-backend|after-a-crash-in-MakeRoot|exit-%d", code), What: "after a process died in the middle of MakeRoot onto the file store, a new process persisting the same version reports success on an incomplete version, or fails", Detail: strings.TrimSpace(string(out))}},
					[]string{fmt.Sprintf("9 entries, branch factor 2, %s; MakeRoot onto persist/file in a process that is killed (SIGXFSZ) when a file reaches %d bytes; then a new process: same entries, MakeRoot, walk", shortFmtName(j.format), j.limit)})
			}
			return
		}
		out, err := exec.Command(self, "c03-file-child", dir, j.format, strconv.Itoa(j.limit)).CombinedOutput()
		atomic.AddInt64(&runs, 1)
		code := 0
		if err != nil {
			ee, ok := err.(*exec.ExitError)
			if !ok {
				return
			}
			code = ee.ExitCode()
		}
		desc := []string{fmt.Sprintf("9 entries, branch factor 2, %s, values of 1..140 bytes; MakeRoot onto persist/file with no file allowed to grow beyond %d bytes (EFBIG); limit lifted", shortFmtName(j.format), j.limit)}
		switch code {
		case 0:
			atomic.AddInt64(&succeeded, 1)
		case 10:
			atomic.AddInt64(&failedReported, 1)
		case 3:
		case 24:
			acc.add(cfg, "C03", []explore.Finding{{Sig: "C03|file-backend|success-reported-although-a-write-was-cut-short", What: "MakeRoot onto the file store returned nil although a node write was cut short: the version is not completely in the store", Detail: strings.TrimSpace(string(out))}}, desc)
		case 25:
			acc.add(cfg, "C03", []explore.Finding{{Sig: "C03|file-backend|tree-unusable-after-failed-MakeRoot", What: "after a failed MakeRoot onto the file store the tree no longer answers Size/Get as before"}}, desc)
		case 26:
			acc.add(cfg, "C03", []explore.Finding{{Sig: "C03|file-backend|retry-fails", What: "MakeRoot retried after the write failure had cleared fails", Detail: strings.TrimSpace(string(out))}}, append(desc, "MakeRoot again"))
		case 28:
			acc.add(cfg, "C03", []explore.Finding{{Sig: "C03|file-backend|retry-reports-success-on-an-incomplete-version", What: "MakeRoot retried after the write failure had cleared reported success, but a reachable node is missing or incomplete in the store", Detail: strings.TrimSpace(string(out))}}, append(desc, "MakeRoot again"))
		default:
			acc.add(cfg, "C03", []explore.Finding{{Sig: fmt.Sprintf("C03|file-backend|child-exit-%d", code), What: "MakeRoot onto the file store under a file-size limit panicked or the child died", Detail: strings.TrimSpace(string(out))}}, desc)
		}
	})
	if failedReported == 0 {
		run.HarnessError("file-size limit did not take effect in part E (no MakeRoot failed): RLIMIT_FSIZE not enforced here?")
	}
	run.Parts = append(run.Parts, map[string]interface{}{"part": "E (engine X): MakeRoot onto the real persist/file store with RLIMIT_FSIZE = N for every N from 0 to one past the largest node, both formats; then the limit is lifted and MakeRoot retried",
		"child_processes": runs, "children_killed_in_the_middle_of_makeroot_then_a_new_process_persists_the_version": crashed, "makeroot_reported_the_failure": failedReported, "makeroot_succeeded": succeeded, "largest_node_bytes": maxNode})
}

var _ = explore.Finding{}
