//go:build !sched

package checks

import "verifharness/report"

func c18Schedules(run *report.Run, acc *pairAcc) {
	run.Extra["sync_level"] = false
	run.Extra["sync_level_note"] = "engine S not available for this run: the concurrent double-store scenarios were not explored"
}
