package checks

import (
	"encoding/base64"
	"encoding/json"
	"fmt"
	"os"
	"path/filepath"
	"sort"

	"github.com/jrhy/mast"
	"verifharness/env"
	"verifharness/explore"
	"verifharness/ref"
	"verifharness/report"
	"verifharness/world"
)

// Trees written by the release the repository was pinned at (5b9555e), byte for byte: golden/legacy_5b9555e.json
// was produced by a generator run against that commit in a scratch worktree (node names and bytes of every
// reachable node, the Root record, and the entries according to a plain map that the old release itself was
// checked against). It holds what the present code no longer writes: the entry-less node of a never-populated
// tree ("00 00 00", `{"Key":[],"Value":[]}`), trees left taller than their size after deletes, key-less top nodes.
// "Trees written by earlier releases load unchanged": every such root must load - also through a Root that has no
// NodeFormat, which is how releases before the binary format wrote them - with exactly the recorded entries, and
// stay a working tree (one insert, one delete, persist, reload).
type legacyTree struct {
	Name    string            `json:"name"`
	KeyType string            `json:"key_type"`
	Root    mast.Root         `json:"root"`
	Store   map[string]string `json:"store"`
	Keys    []json.RawMessage `json:"keys"`
	Values  []string          `json:"values"`
}

func c14Legacy(run *report.Run, acc *pairAcc) {
	b, err := os.ReadFile(filepath.Join(report.HomeDir, "golden", "legacy_5b9555e.json"))
	if err != nil {
		run.HarnessError("legacy vectors: %v", err)
		return
	}
	var trees []legacyTree
	if err := json.Unmarshal(b, &trees); err != nil {
		run.HarnessError("legacy vectors: %v", err)
		return
	}
	cfg := &world.Config{Name: "trees written by release 5b9555e"}
	loads := 0
	for _, lt := range trees {
		lt := lt
		var keysLike interface{}
		var keys []interface{}
		var fresh, absent interface{}
		for _, raw := range lt.Keys {
			switch lt.KeyType {
			case "uint":
				var k uint
				json.Unmarshal(raw, &k)
				keys = append(keys, k)
			case "int":
				var k int
				json.Unmarshal(raw, &k)
				keys = append(keys, k)
			default:
				var k string
				json.Unmarshal(raw, &k)
				keys = append(keys, k)
			}
		}
		switch lt.KeyType {
		case "uint":
			keysLike, fresh, absent = uint(0), uint(1000003), uint(999983)
		case "int":
			keysLike, fresh, absent = 0, -1000003, 999983
		default:
			keysLike, fresh, absent = "", "key-fresh", "key-absent"
		}
		variants := []string{"as written"}
		if string(lt.Root.NodeFormat) == ref.FormatMarshaler {
			variants = append(variants, "root without NodeFormat")
		}
		for _, variant := range variants {
			st := env.NewStore("mem://legacy/")
			for name, b64 := range lt.Store {
				nb, err := base64.StdEncoding.DecodeString(b64)
				if err != nil {
					run.HarnessError("legacy vectors: %v", err)
					return
				}
				st.M[name] = nb
			}
			root := lt.Root
			if variant != "as written" {
				root.NodeFormat = ""
			}
			bad := func(stage string, r world.Res, detail string) {
				acc.add(cfg, "C14", []explore.Finding{{Sig: "C14|legacy-tree|" + stage + "|" + resClass(r), What: "a tree written by an earlier release does not load unchanged / does not stay usable", Detail: fmt.Sprintf("%s (%s): %s %v", lt.Name, variant, detail, r)}}, []string{lt.Name, variant})
			}
			rc := &mast.RemoteConfig{KeysLike: keysLike, ValuesLike: "", StoreImmutablePartsWith: st}
			var t *mast.Mast
			r := guardRes(func() (err error) { t, err = root.LoadMast(ctx, rc); return })
			loads++
			if r.Err != nil || r.Panic != nil {
				bad("LoadMast", r, "")
				continue
			}
			model := map[interface{}]string{}
			for i, k := range keys {
				model[k] = lt.Values[i]
			}
			compare := func(t *mast.Mast, stage string) bool {
				r := guardRes(func() error {
					if t.Size() != uint64(len(model)) {
						return fmt.Errorf("Size %d, recorded entries %d", t.Size(), len(model))
					}
					for k, want := range model {
						var got string
						ok, err := t.Get(ctx, k, &got)
						if err != nil {
							return fmt.Errorf("Get(%v): %w", k, err)
						}
						if !ok || got != want {
							return fmt.Errorf("Get(%v) = %v %q, recorded %q", k, ok, got, want)
						}
					}
					if ok, err := t.Get(ctx, absent, nil); err != nil || ok {
						return fmt.Errorf("Get(absent key) = %v %v", ok, err)
					}
					n := 0
					if err := t.Iter(ctx, func(k, v interface{}) error {
						n++
						if want, ok := model[k]; !ok || v.(string) != want {
							return fmt.Errorf("Iter yields %v=%v, not recorded", k, v)
						}
						return nil
					}); err != nil {
						return err
					}
					if n != len(model) {
						return fmt.Errorf("Iter yields %d entries, recorded %d", n, len(model))
					}
					return nil
				})
				if r.Err != nil || r.Panic != nil {
					bad(stage, r, "")
					return false
				}
				return true
			}
			if !compare(t, "contents-after-load") {
				continue
			}
			// still a working tree: one insert, one delete, persist, reload
			var sorted []interface{}
			sorted = append(sorted, keys...)
			sort.Slice(sorted, func(i, j int) bool { return fmt.Sprint(sorted[i]) < fmt.Sprint(sorted[j]) })
			r = guardRes(func() error {
				if err := t.Insert(ctx, fresh, "fresh"); err != nil {
					return fmt.Errorf("Insert: %w", err)
				}
				model[fresh] = "fresh"
				if len(sorted) > 0 {
					if err := t.Delete(ctx, sorted[0], model[sorted[0]]); err != nil {
						return fmt.Errorf("Delete(%v): %w", sorted[0], err)
					}
					delete(model, sorted[0])
				}
				r2, err := t.MakeRoot(ctx)
				if err != nil {
					return fmt.Errorf("MakeRoot: %w", err)
				}
				t, err = r2.LoadMast(ctx, rc)
				if err != nil {
					return fmt.Errorf("LoadMast of the re-persisted tree: %w", err)
				}
				return nil
			})
			if r.Err != nil || r.Panic != nil {
				bad("modify-persist-reload", r, "")
				continue
			}
			compare(t, "contents-after-modify-persist-reload")
		}
	}
	run.Evals += int64(loads)
	run.Extra["legacy_trees_loaded"] = loads
	run.Parts = append(run.Parts, map[string]interface{}{"part": "trees written by release 5b9555e (frozen bytes): load, compare with the recorded entries, modify, persist, reload", "trees": len(trees), "loads": loads})
}
