package checks

import (
	"encoding/json"
	"fmt"
	"sync/atomic"

	"github.com/jrhy/mast"
	"verifharness/env"
	"verifharness/explore"
	"verifharness/ref"
	"verifharness/report"
	"verifharness/world"
)

// Seeded larger trees (thorough tier of C15 and C16): N uint keys at several branch
// factors, persisted and reloaded; then every key and a set of absent probes.

type bigTree struct {
	cfg   *world.Config
	w     *world.World
	root  *mast.Root
	c     world.Contents
	reach map[string]bool
}

func bigCfg(bf uint, n int, format string) *world.Config {
	// present keys: 1..n without the multiples of 5 (so keys of every layer are present); absent
	// probes: the multiples of 5 up to n, plus 5*bf^k beyond it (absent keys of high layers). n is chosen
	// so that one more entry does not change the height.
	var keys []interface{}
	var probes []interface{}
	for i := 1; i <= n; i++ {
		if i%5 == 0 {
			probes = append(probes, uint(i))
		} else {
			keys = append(keys, uint(i))
		}
	}
	for p := uint(5) * bf; p < 1<<20; p *= bf {
		if p > uint(n) {
			probes = append(probes, p)
		}
	}
	c := world.UintCfg(bf, keys, 1, format, "none")
	c.Name = fmt.Sprintf("seeded/uint 1..%d without multiples of 5/bf%d/%s", n, bf, format)
	c.Probes = probes
	return c
}

// bigCfgFrom: the same family shifted to start right above lo = bf^L, itself an absent key of layer L: a
// high-layer key that becomes the new minimum of the whole tree when inserted (everything else lies to its
// right), next to the absent keys inside and beyond the tree.
func bigCfgFrom(bf uint, L int, n int, format string) *world.Config {
	lo := uint(1)
	for i := 0; i < L; i++ {
		lo *= bf
	}
	var keys, probes []interface{}
	probes = append(probes, lo)
	if lo > bf {
		probes = append(probes, lo-bf, lo/bf) // further absent keys below the minimum, of lower layers
	}
	for i := lo + 1; i <= lo+uint(n); i++ {
		if i%5 == 0 {
			probes = append(probes, i)
		} else {
			keys = append(keys, i)
		}
	}
	for p := uint(5) * bf; p < 1<<20; p *= bf {
		if p > lo+uint(n) {
			probes = append(probes, p)
		}
	}
	c := world.UintCfg(bf, keys, 1, format, "none")
	c.Name = fmt.Sprintf("seeded/uint %d..%d without multiples of 5/bf%d/%s", lo+1, lo+uint(n), bf, format)
	c.Probes = probes
	return c
}

func buildBig(cfg *world.Config, skip map[int]bool, extra []int) (*bigTree, error) {
	w, err := world.New(cfg)
	if err != nil {
		return nil, err
	}
	t := w.Trees[0]
	for i := range cfg.Keys {
		if skip[i] {
			continue
		}
		if err := t.Insert(ctx, cfg.Keys[i], cfg.Vals[0]); err != nil {
			return nil, err
		}
	}
	for _, p := range extra {
		if err := t.Insert(ctx, cfg.Probes[p], cfg.Vals[0]); err != nil {
			return nil, err
		}
	}
	root, err := t.MakeRoot(ctx)
	if err != nil {
		return nil, err
	}
	bt := &bigTree{cfg: cfg, w: w, root: root}
	bt.reach, err = codecFor(cfg).Reach(cfg.KS, storeGet(w.Store), linkOf(root))
	return bt, err
}

func (bt *bigTree) load() (*mast.Mast, error) {
	return bt.root.LoadMast(ctx, bt.w.RemoteConfig(bt.w.Store, false))
}

// bigC16: load counts of LoadMast, Clone, Get, Insert, Delete for every key and probe.
func bigC16(run *report.Run, acc *pairAcc) {
	var evals int64
	specs := []struct {
		bf uint
		n  int
		L  int // > 0: the tree starts right above bf^L (bigCfgFrom)
	}{{2, 75, 0}, {3, 100, 0}, {2, 75, 6}, {4, 644, 4}, {3, 150, 4}, {4, 150, 0}, {16, 300, 0}, {16, 300, 2}}
	if !run.Thorough() {
		specs = specs[:5] // the tall ones: heights 4-6, keys and probes of layers up to 6
	}
	for _, spec := range specs {
		cfg := bigCfg(spec.bf, spec.n, ref.FormatBinary)
		if spec.L > 0 {
			cfg = bigCfgFrom(spec.bf, spec.L, spec.n, ref.FormatBinary)
		}
		bt, err := buildBig(cfg, nil, nil)
		if err != nil {
			run.HarnessError("%s: %v", cfg.Name, err)
			continue
		}
		h := int(bt.root.Height)
		parallelFor(cfg.NAll(), func(i int) {
			var tweak func(rc *mast.RemoteConfig)
			count := func(api string, bound int, f func(t *mast.Mast) error, mustKeepHeight bool) {
				w2 := *bt.w
				store2 := cloneStore(bt.w)
				w2.Store = store2
				rc := w2.RemoteConfig(store2, false)
				if tweak != nil {
					tweak(rc)
				}
				t, err := bt.root.LoadMast(ctx, rc)
				if err != nil {
					return
				}
				store2.ResetLog()
				h0 := t.Height()
				r := guardRes(func() error { return f(t) })
				atomic.AddInt64(&evals, 1)
				if r.Panic != nil {
					return
				}
				if mustKeepHeight && t.Height() != h0 {
					return
				}
				if n := len(store2.Calls("load")); n > bound {
					acc.add(cfg, "C16", []explore.Finding{{Sig: "C16|" + api + "|too-many-loads", What: api + " read more nodes than the search path allows", Detail: fmt.Sprintf("key %v: %d loads > %d (height %d, %d entries)", cfg.Key(i), n, bound, h, spec.n)}}, []string{cfg.Name})
				}
			}
			key := cfg.Key(i)
			count("Get", h+1, func(t *mast.Mast) error { _, err := t.Get(ctx, key, nil); return err }, false)
			// the same lookup with somewhere to put the value: a typed destination, an interface destination, and
			// both on a handle opened without ValuesLike (a reader that only knows the key type)
			getTyped := func(t *mast.Mast) error { var s string; _, err := t.Get(ctx, key, &s); return err }
			getIface := func(t *mast.Mast) error { var v interface{}; _, err := t.Get(ctx, key, &v); return err }
			count("Get-into-a-typed-destination", h+1, getTyped, false)
			count("Get-into-an-interface-destination", h+1, getIface, false)
			tweak = func(rc *mast.RemoteConfig) { rc.ValuesLike = nil }
			count("Get|handle-without-ValuesLike", h+1, func(t *mast.Mast) error { _, err := t.Get(ctx, key, nil); return err }, false)
			count("Get-into-a-typed-destination|handle-without-ValuesLike", h+1, getTyped, false)
			count("Get-into-an-interface-destination|handle-without-ValuesLike", h+1, getIface, false)
			tweak = nil
			count("Insert", 2*(h+1), func(t *mast.Mast) error { return t.Insert(ctx, key, "b") }, true)
			count("Delete", 2*(h+1), func(t *mast.Mast) error { t.Delete(ctx, key, cfg.Vals[0]); return nil }, true)
			// persisting after one modification reads nothing that the modification has not already read
			for _, mod := range []string{"Insert", "Delete"} {
				mod := mod
				store2 := cloneStore(bt.w)
				w2 := *bt.w
				w2.Store = store2
				t, err := bt.root.LoadMast(ctx, w2.RemoteConfig(store2, false))
				if err != nil {
					continue
				}
				r := guardRes(func() error {
					if mod == "Insert" {
						return t.Insert(ctx, key, "b")
					}
					return t.Delete(ctx, key, cfg.Vals[0])
				})
				if r.Err != nil || r.Panic != nil {
					continue
				}
				store2.ResetLog()
				r = guardRes(func() error { _, err := t.MakeRoot(ctx); return err })
				atomic.AddInt64(&evals, 1)
				if r.Err != nil || r.Panic != nil {
					continue
				}
				if n := len(store2.Calls("load")); n > 2*(h+1) {
					acc.add(cfg, "C16", []explore.Finding{{Sig: "C16|MakeRoot-after-" + mod + "|too-many-loads", What: "MakeRoot after a single " + mod + " read more nodes than two root-to-leaf paths", Detail: fmt.Sprintf("key %v: %d loads > %d (height %d, %d entries)", key, n, 2*(h+1), h, spec.n)}}, []string{cfg.Name})
				}
			}
			// navigation: placing a cursor and every single step read at most one path
			{
				store2 := cloneStore(bt.w)
				w2 := *bt.w
				w2.Store = store2
				t, err := bt.root.LoadMast(ctx, w2.RemoteConfig(store2, false))
				if err == nil {
					step := func(api string, bound int, f func() error) bool {
						store2.ResetLog()
						r := guardRes(f)
						atomic.AddInt64(&evals, 1)
						if r.Err != nil || r.Panic != nil {
							return false
						}
						if n := len(store2.Calls("load")); n > bound {
							acc.add(cfg, "C16", []explore.Finding{{Sig: "C16|" + api + "|too-many-loads", What: api + " read more nodes than one root-to-leaf path", Detail: fmt.Sprintf("key %v: %d loads > %d (height %d, %d entries)", key, n, bound, h, spec.n)}}, []string{cfg.Name})
							return false
						}
						return true
					}
					var c *mast.Cursor
					if step("Cursor", 1, func() (err error) { c, err = t.Cursor(ctx); return }) && step("Cursor.Ceil", h+1, func() error { return c.Ceil(ctx, key) }) {
						for j := 0; j < 3; j++ {
							if !step("Cursor.Forward", h+1, func() error { return c.Forward(ctx) }) {
								break
							}
						}
						for j := 0; j < 5; j++ {
							if !step("Cursor.Backward", h+1, func() error { return c.Backward(ctx) }) {
								break
							}
						}
					}
					if i == 0 {
						step("Cursor.Min", h+1, func() error {
							c2, err := t.Cursor(ctx)
							if err != nil {
								return err
							}
							return c2.Min(ctx)
						})
						step("Cursor.Max", h+1, func() error {
							c2, err := t.Cursor(ctx)
							if err != nil {
								return err
							}
							return c2.Max(ctx)
						})
						step("Iter-first-entry", h+1, func() error { return t.Iter(ctx, func(k, v interface{}) error { return mast.ErrIterDone }) })
					}
				}
			}
		})
		// LoadMast and Clone
		store2 := cloneStore(bt.w)
		store2.ResetLog()
		t, err := bt.root.LoadMast(ctx, bt.w.RemoteConfig(store2, false))
		if err == nil {
			if n := len(store2.Calls("load")); n > 1 {
				acc.add(cfg, "C16", []explore.Finding{{Sig: "C16|LoadMast|too-many-loads", What: "LoadMast read more than the top node", Detail: fmt.Sprint(n)}}, []string{cfg.Name})
			}
			store2.ResetLog()
			t.Clone(ctx)
			if n := len(store2.Calls("load")); n > 1 {
				acc.add(cfg, "C16", []explore.Finding{{Sig: "C16|Clone|too-many-loads", What: "Clone read more than the top node", Detail: fmt.Sprint(n)}}, []string{cfg.Name})
			}
		}
		// a Root put together by the application from the stored link, height, branch factor and format (no
		// size on record; or a size that is off): opening it is still one read, and so is every lookup path
		for _, sz := range []uint64{0, 1, bt.root.Size + 1} {
			rr := *bt.root
			rr.Size = sz
			store2.ResetLog()
			t2, err := rr.LoadMast(ctx, bt.w.RemoteConfig(store2, false))
			if n := len(store2.Calls("load")); n > 1 {
				acc.add(cfg, "C16", []explore.Finding{{Sig: "C16|LoadMast|root-with-another-size|too-many-loads", What: "LoadMast of a root whose recorded size is not the number of entries read more than the top node", Detail: fmt.Sprintf("recorded size %d (entries %d): %d loads", sz, bt.root.Size, n)}}, []string{cfg.Name})
			}
			if err == nil && t2 != nil {
				store2.ResetLog()
				t2.Get(ctx, cfg.Key(0), nil)
				if n := len(store2.Calls("load")); n > h+1 {
					acc.add(cfg, "C16", []explore.Finding{{Sig: "C16|Get|root-with-another-size|too-many-loads", What: "Get on a tree opened from a root whose recorded size is not the number of entries read more than height+1 nodes", Detail: fmt.Sprintf("recorded size %d: %d loads, height %d", sz, n, h)}}, []string{cfg.Name})
				}
			}
		}
		run.Parts = append(run.Parts, map[string]interface{}{"config": cfg.Name, "height": h, "entries": spec.n, "keys_and_probes": cfg.NAll()})
	}
	run.Extra["seeded_tree_operations"] = evals
}

func cloneStore(w *world.World) *env.Store {
	s := env.NewStore(w.Store.Prefix)
	for _, n := range w.Store.Names() {
		b, _ := w.Store.Has(n)
		s.M[n] = b
	}
	return s
}

// adjacentC15: one, two or three entries that only one version has, next to one another in an inner node and
// directly in front of a tall subtree both versions share. Keys B+1..B+n make the common part; the extra keys
// u, 2u, 3u (u = bf^12: layers above the height, smaller than every other key) land at the front of the top node
// with empty children between them. Every subset of the extra keys against every other subset, both directions.
func adjacentC15(run *report.Run, acc *pairAcc, bf uint, n int) {
	u := uint(1)
	for i := 0; i < 12; i++ {
		u *= bf
	}
	adjacentC15With(run, acc, bf, n, []uint{u, 2 * u, 3 * u}, "adjacent-one-sided-entries", "adjacent one-sided entries in front of a tall common subtree: all subsets of three extra keys against each other")
}

// subtreesBeforeSharedC15: the same, with one-sided *subtrees* between the one-sided entries: besides u, 2u, 3u
// (top node) the extra keys u+1 (layer 0: a chain of pass-through nodes down to a leaf), u+bf^2 (layer 2) and
// 2u+bf (layer 1) hang below the top node between those entries. In "new: [u T 2u S ...] old: [S ...]" the shared
// subtree S is neither the next item nor the nearest link of the new version's traversal, but it is still ahead.
func subtreesBeforeSharedC15(run *report.Run, acc *pairAcc, bf uint, n int) {
	u := uint(1)
	for i := 0; i < 12; i++ {
		u *= bf
	}
	adjacentC15With(run, acc, bf, n, []uint{u, u + 1, u + bf*bf, 2 * u, 2*u + bf, 3 * u}, "one-sided-subtrees-in-front-of-a-shared-subtree", "one-sided entries and one-sided subtrees between them in front of a tall common subtree: all subsets of six extra keys against each other")
}

// chainC15: a chain of pass-through nodes both versions share, below nodes only one of them has. Common keys
// 1, 3, 5 (a leaf), 257..511 and 256 at branch factor 2: height 8, key 256 alone in the top node, its left child a
// chain of seven pass-through nodes down to the leaf. The extra keys 2, 4, 8, ... 128 (layers 1..7, one per level of
// the chain) each put a keyed node into the chain; every subset of them against every other. What lies below the
// lowest node that differs is shared, pass-through nodes included.
func chainC15(run *report.Run, acc *pairAcc) {
	common := []uint{1, 3, 5, 256}
	for k := uint(257); k <= 511; k++ {
		common = append(common, k)
	}
	adjacentC15With(run, acc, 2, 0, []uint{2, 4, 8, 16, 32, 64, 128}, "keyed-nodes-in-a-shared-pass-through-chain", "a chain of pass-through nodes both versions share below nodes only one has: all subsets of seven keys of layers 1..7 against each other", common...)
}

func adjacentC15With(run *report.Run, acc *pairAcc, bf uint, n int, extras []uint, label, part string, common ...uint) {
	u := uint(1)
	for i := 0; i < 12; i++ {
		u *= bf
	}
	B := 8 * u
	keys := []interface{}{}
	for _, e := range extras {
		keys = append(keys, e)
	}
	for i := 1; i <= n; i++ {
		keys = append(keys, B+uint(i))
	}
	for _, c := range common {
		keys = append(keys, c)
	}
	cfg := world.UintCfg(bf, keys, 1, ref.FormatBinary, "none")
	cfg.Name = fmt.Sprintf("%s/uint %d+1..%d+%d and %v/bf%d", label, B, B, n, extras, bf)
	var vs []*bigTree
	for mask := 0; mask < 1<<uint(len(extras)); mask++ {
		skip := map[int]bool{}
		for b := 0; b < len(extras); b++ {
			if mask&(1<<b) == 0 {
				skip[b] = true
			}
		}
		bt, err := buildBig(cfg, skip, nil)
		if err != nil {
			run.HarnessError("%s: %v", cfg.Name, err)
			return
		}
		vs = append(vs, bt)
	}
	st := cloneStore(vs[0].w)
	for _, v := range vs[1:] {
		for _, nm := range v.w.Store.Names() {
			b, _ := v.w.Store.Has(nm)
			st.M[nm] = b
		}
	}
	var pairs int64
	for i := range vs {
		for j := range vs {
			if i == j {
				continue
			}
			mk := func(bt *bigTree) *version {
				w2 := *vs[0].w
				w2.Store = st
				t, err := bt.root.LoadMast(ctx, w2.RemoteConfig(st, false))
				if err != nil {
					return nil
				}
				return &version{w: &w2, t: t, root: bt.root, link: linkOf(bt.root), reach: bt.reach, c: world.Contents{M: map[int]int{}, Size: bt.root.Size}}
			}
			a, b := mk(vs[i]), mk(vs[j])
			if a == nil || b == nil {
				continue
			}
			a.w = b.w // one world, one store log (checkDiffCost resets and reads the log of both sides)
			pairs++
			desc := []string{cfg.Name, fmt.Sprintf("old version: common keys plus extra keys by bit mask %06b; new version: mask %06b (heights %d / %d)", i, j, vs[i].root.Height, vs[j].root.Height)}
			acc.add(cfg, "C15", checkDiffCost(cfg, a, b), desc)
		}
	}
	acc.pairs += pairs
	run.Parts = append(run.Parts, map[string]interface{}{"part": part, "config": cfg.Name, "ordered_pairs": pairs, "height": vs[0].root.Height})
}

// structC15: struct keys (ordered by a comparator of their own, layered through the configured marshaler) in a
// ruler of layers 0..4; the full version against the version without one key, for every key, both directions,
// each tree with a marshaler of its own. checkDiffCost then lets every single Marshal call of either side fail,
// and lets either side's marshaler fail from every call on; diffs that still report success keep the bound.
func structC15(run *report.Run, acc *pairAcc) {
	var ruler []uint8
	for i := 1; i < 128; i++ {
		l := uint8(0)
		for x := i; x%2 == 0; x /= 2 {
			l++
		}
		ruler = append(ruler, l)
	}
	ruler = append(ruler, 0) // 128 = 2^7 keys of layers 0..6: one more entry adds a level
	cfg := world.StructCfg(2, ruler, ref.FormatBinary, "none")
	cfg.CustomCompare = true
	cfg.Name = "struct-keys-failing-marshaler/struct keys, ruler of 128/bf2/bin/none"
	base, err := buildBig(cfg, nil, nil)
	if err != nil {
		run.HarnessError("%s: %v", cfg.Name, err)
		return
	}
	// two more keys, above every key of the ruler in layer: one ordered before all of them, one after all of
	// them (the version with such a key is one top node over the root of the version without it)
	for pi, a := range []string{"", "zzzz"} {
		for i := 0; ; i++ {
			k := world.SKey{A: a, B: i}
			kb, _ := json.Marshal(k)
			if ref.BlobLayer(kb, 2) >= 8 {
				cfg.Probes[pi] = k
				break
			}
		}
	}
	var pairs int64
	nk := len(cfg.Keys)
	parallelFor(nk+2, func(k int) {
		var other *bigTree
		var err error
		if k < nk {
			other, err = buildBig(cfg, map[int]bool{k: true}, nil)
		} else {
			other, err = buildBig(cfg, nil, []int{k - nk})
		}
		if err != nil {
			return
		}
		st := cloneStore(base.w)
		for _, nm := range other.w.Store.Names() {
			b, _ := other.w.Store.Has(nm)
			st.M[nm] = b
		}
		mk := func(bt *bigTree) *version {
			w2 := *base.w
			w2.Store = st
			w2.Msh = &env.Counter{}
			w2.Cmp = &env.Counter{}
			t, err := bt.root.LoadMast(ctx, w2.RemoteConfig(st, false))
			if err != nil {
				return nil
			}
			return &version{w: &w2, t: t, root: bt.root, link: linkOf(bt.root), reach: bt.reach, c: world.Contents{M: map[int]int{}, Size: bt.root.Size}}
		}
		a, b := mk(base), mk(other)
		if a == nil || b == nil {
			return
		}
		atomic.AddInt64(&pairs, 2)
		desc := []string{cfg.Name, fmt.Sprintf("all %d keys (height %d) versus the same without key #%d, or (#%d, #%d) with one more key of layer >= 8 before / after all of them (height %d)", nk, base.root.Height, k, nk, nk+1, other.root.Height)}
		acc.add(cfg, "C15", checkDiffCost(cfg, a, b), desc)
		acc.add(cfg, "C15", checkDiffCost(cfg, b, a), desc)
	})
	acc.pairs += pairs
	run.Parts = append(run.Parts, map[string]interface{}{"part": "struct keys, 128 keys of layers 0..6 plus a layer-8 key before / after all of them: every one-key change, both directions, every Marshal call failing (alone, and from that call on) on either side", "config": cfg.Name, "pairs": pairs})
}

// bigC15: every single-key and a band of two-key modifications of a large tree.
func bigC15(run *report.Run, acc *pairAcc) {
	var pairs int64
	for _, spec := range []struct {
		bf uint
		n  int
	}{{2, 75}, {4, 150}, {16, 250}} {
		cfg := bigCfg(spec.bf, spec.n, ref.FormatBinary)
		base, err := buildBig(cfg, nil, nil)
		if err != nil {
			run.HarnessError("%s: %v", cfg.Name, err)
			continue
		}
		type mod struct {
			skip  map[int]bool
			extra []int
		}
		var mods []mod
		for i := 0; i < spec.n; i++ {
			mods = append(mods, mod{skip: map[int]bool{i: true}})
			if i+7 < spec.n {
				mods = append(mods, mod{skip: map[int]bool{i: true, i + 7: true}})
			}
		}
		for p := range cfg.Probes {
			mods = append(mods, mod{extra: []int{p}})
		}
		parallelFor(len(mods), func(mi int) {
			other, err := buildBig(cfg, mods[mi].skip, mods[mi].extra)
			if err != nil {
				return
			}
			// both versions in one private store
			st := cloneStore(base.w)
			for _, n := range other.w.Store.Names() {
				b, _ := other.w.Store.Has(n)
				st.M[n] = b
			}
			w2 := *base.w
			w2.Store = st
			mk := func(bt *bigTree) *version {
				t, err := bt.root.LoadMast(ctx, w2.RemoteConfig(st, false))
				if err != nil {
					return nil
				}
				return &version{w: &w2, t: t, root: bt.root, link: linkOf(bt.root), reach: bt.reach, c: world.Contents{M: map[int]int{}, Size: bt.root.Size}}
			}
			a, b := mk(base), mk(other)
			if a == nil || b == nil {
				return
			}
			atomic.AddInt64(&pairs, 2)
			desc := []string{cfg.Name, fmt.Sprintf("modification: without keys %v, plus probes %v", keysOf(mods[mi].skip), mods[mi].extra)}
			acc.add(cfg, "C15", checkDiffCost(cfg, a, b), desc)
			acc.add(cfg, "C15", checkDiffCost(cfg, b, a), desc)
		})
		run.Parts = append(run.Parts, map[string]interface{}{"config": cfg.Name, "entries": spec.n, "modifications": len(mods)})
	}
	run.Extra["seeded_tree_pairs"] = pairs
}

func keysOf(m map[int]bool) []int {
	var ks []int
	for k := range m {
		ks = append(ks, k)
	}
	return ks
}

// tallC15: a tall tree (branch factor 2, keys 1..N) where a high-layer key is deleted - leaving
// pass-through nodes high up - and one more entry is changed somewhere else; both versions are
// derived incrementally from one persisted base. Every (high key, grid position) of the family, both
// diff directions. The 2*D+2 bound is only tight on tall trees, which the small universes cannot provide.
func tallC15(run *report.Run, acc *pairAcc, n int, gridStep int) {
	var keys []interface{}
	for i := 1; i <= n; i++ {
		keys = append(keys, uint(i))
	}
	cfg := world.UintCfg(2, keys, 1, ref.FormatBinary, "none")
	cfg.Name = fmt.Sprintf("tall/uint 1..%d/bf2", n)
	cfg.Probes = []interface{}{uint(n + 1000)}
	w, err := world.New(cfg)
	if err != nil {
		run.HarnessError("tall: %v", err)
		return
	}
	t0 := w.Trees[0]
	for _, k := range keys {
		if err := t0.Insert(ctx, k, "a"); err != nil {
			run.HarnessError("tall: %v", err)
			return
		}
	}
	root0, err := t0.MakeRoot(ctx)
	if err != nil {
		run.HarnessError("tall: %v", err)
		return
	}
	var high []uint
	for i := 1; i <= n; i++ {
		if ref.UintLayer(uint64(i), 2)+5 >= uint8(root0.Height) {
			high = append(high, uint(i))
		}
	}
	var pairs int64
	codec := codecFor(cfg)
	mk := func(root *mast.Root) *version {
		t, err := root.LoadMast(ctx, w.RemoteConfig(w.Store, false))
		if err != nil {
			return nil
		}
		reach, err := codec.Reach(cfg.KS, storeGet(w.Store), linkOf(root))
		if err != nil {
			return nil
		}
		return &version{w: w, t: t, root: root, link: linkOf(root), reach: reach, c: world.Contents{M: map[int]int{}, Size: root.Size}}
	}
	for _, h := range high {
		ta, err := root0.LoadMast(ctx, w.RemoteConfig(w.Store, false))
		if err != nil {
			continue
		}
		if err := ta.Delete(ctx, h, "a"); err != nil {
			continue
		}
		rootA, err := ta.MakeRoot(ctx)
		if err != nil {
			continue
		}
		// the base against A: where A has a pass-through node, the base has a keyed one at the same place (and the other way
		// round in the reversed pair); everything below is common to both versions and must be skipped unread
		if a0, a1 := mk(root0), mk(rootA); a0 != nil && a1 != nil {
			pairs += 2
			desc := []string{cfg.Name, fmt.Sprintf("version A = all keys; version B = A without key %d (layer %d)", h, ref.UintLayer(uint64(h), 2))}
			acc.add(cfg, "C15", checkDiffCost(cfg, a0, a1), desc)
			acc.add(cfg, "C15", checkDiffCost(cfg, a1, a0), desc)
		}
		// second positions: a grid over all keys, and every other high-layer key (a short changed path
		// keeps D small, which is when the bound is tight)
		var xs []int
		for x := 1; x <= n; x += gridStep {
			xs = append(xs, x)
		}
		for _, hx := range high {
			xs = append(xs, int(hx))
		}
		for _, x := range xs {
			if uint(x) == h {
				continue
			}
			tb, err := rootA.LoadMast(ctx, w.RemoteConfig(w.Store, false))
			if err != nil {
				continue
			}
			if err := tb.Insert(ctx, uint(x), "b"); err != nil {
				continue
			}
			rootB, err := tb.MakeRoot(ctx)
			if err != nil {
				continue
			}
			a, b := mk(rootA), mk(rootB)
			if a == nil || b == nil {
				continue
			}
			pairs += 2
			desc := []string{cfg.Name, fmt.Sprintf("version A = all keys without %d; version B = A with key %d set to another value", h, x)}
			acc.add(cfg, "C15", checkDiffCost(cfg, a, b), desc)
			acc.add(cfg, "C15", checkDiffCost(cfg, b, a), desc)
		}
	}
	run.Parts = append(run.Parts, map[string]interface{}{"config": cfg.Name, "height": root0.Height, "high_layer_keys_deleted": len(high), "grid_step": gridStep, "ordered_pairs": pairs})
	run.Transitions += pairs
	run.Evals += pairs
	run.Distinct += pairs
}

// heightC15: pairs of versions on either side of a height change. bf^h + 1 keys (uint 1..bf^h+1, among them
// the only key of layer h) give height h; without any one key the size allows only h-1. Both directions,
// for a spread of removed keys: the taller version's top levels are restructured, everything below is common.
func heightC15(run *report.Run, acc *pairAcc, bf uint, h int) {
	n := 1
	for i := 0; i < h; i++ {
		n *= int(bf)
	}
	n++
	var keys []interface{}
	for i := 1; i <= n; i++ {
		keys = append(keys, uint(i))
	}
	cfg := world.UintCfg(bf, keys, 1, ref.FormatBinary, "none")
	cfg.Name = fmt.Sprintf("height-change/uint 1..%d/bf%d", n, bf)
	cfg.Probes = []interface{}{uint(n + 1000)}
	base, err := buildBig(cfg, nil, nil)
	if err != nil {
		run.HarnessError("%s: %v", cfg.Name, err)
		return
	}
	var pairs int64
	var removed []int
	for _, k := range []int{0, 1, n / 3, n/2 - 1, n - 3, n - 2, n - 1} {
		removed = append(removed, k)
	}
	parallelFor(len(removed), func(ri int) {
		other, err := buildBig(cfg, map[int]bool{removed[ri]: true}, nil)
		if err != nil {
			return
		}
		st := cloneStore(base.w)
		for _, nm := range other.w.Store.Names() {
			b, _ := other.w.Store.Has(nm)
			st.M[nm] = b
		}
		w2 := *base.w
		w2.Store = st
		mk := func(bt *bigTree) *version {
			t, err := bt.root.LoadMast(ctx, w2.RemoteConfig(st, false))
			if err != nil {
				return nil
			}
			return &version{w: &w2, t: t, root: bt.root, link: linkOf(bt.root), reach: bt.reach, c: world.Contents{M: map[int]int{}, Size: bt.root.Size}}
		}
		a, b := mk(base), mk(other)
		if a == nil || b == nil {
			return
		}
		atomic.AddInt64(&pairs, 2)
		desc := []string{cfg.Name, fmt.Sprintf("taller version: all %d keys (height %d); shorter version: without key %v (height %d)", n, base.root.Height, cfg.Keys[removed[ri]], other.root.Height)}
		acc.add(cfg, "C15", checkDiffCost(cfg, a, b), desc)
		acc.add(cfg, "C15", checkDiffCost(cfg, b, a), desc)
	})
	run.Parts = append(run.Parts, map[string]interface{}{"config": cfg.Name, "entries": n, "heights": fmt.Sprintf("%d / %d", base.root.Height, int(base.root.Height)-1), "ordered_pairs": pairs})
	run.Transitions += pairs
	run.Evals += pairs
	run.Distinct += pairs
}
