package checks

import (
	"verifharness/ref"
	"verifharness/world"
)

// multiTreePlans: the fan-out (closure x capture x continuations, see fanOut) that the single-tree checks
// run with their own monitor: every state of a single-tree closure, a second tree value of the same
// version (clone, or the kept root loaded through the warm or cold cache), then every continuation of
// length <= 2 over both trees.
func multiTreePlans(thorough bool) []c02Plan {
	B, M := ref.FormatBinary, ref.FormatMarshaler
	plans := []c02Plan{
		{world.UintCfg(2, urange(1, 4), 1, B, "big"), []string{"clone", "root+load"}, 2, true, 0},
		{world.ExactKey(world.IntCfg(4, []int{1, 4, 5, 8, 12}, []interface{}{"a"}, "", B, "big")), []string{"root+load"}, 2, true, 0},
	}
	if thorough {
		plans = append(plans,
			c02Plan{world.UintCfg(2, urange(1, 5), 1, M, "big"), []string{"clone", "root+load", "root+coldload-twice", "root+load-twice"}, 2, true, 0},
			c02Plan{world.UintCfg(2, urange(1, 4), 2, B, "tiny1"), []string{"clone", "root+load"}, 2, true, 0},
			c02Plan{world.ExactKey(world.IntCfg(4, []int{1, 4, 5, 8, 9, 12}, []interface{}{"a"}, "", B, "big")), []string{"root+load", "clone"}, 2, true, 0},
		)
	}
	return plans
}
