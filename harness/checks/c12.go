package checks

import (
	"context"
	"fmt"
	"sort"
	"strings"
	"sync"
	"sync/atomic"

	"github.com/jrhy/mast"
	"verifharness/explore"
	"verifharness/ref"
	"verifharness/report"
	"verifharness/world"
)

// Engine F: for every pre-state of the closure and every operation, run the
// operation once fault-free counting the environment calls it makes, then once
// per call index with that call answered by an error.

type fOp struct {
	name string
	k, v int
	// run executes the op on tree t of world w and returns an observation string
	// (the "normal result") and the outcome
}

type fObs struct {
	res  world.Res
	obs  string // observable result of the call (values returned, entries yielded)
	c    world.Contents
	size uint64
	h    uint8
}

func treeView(w *world.World, t *mast.Mast) (world.Contents, uint64, uint8) {
	return w.ReadContents(t), t.Size(), t.Height()
}

// runFOp executes one operation by name.
func runFOp(w *world.World, t *mast.Mast, op fOp, aux *mast.Mast) (world.Res, string) {
	return runFOpCtx(ctx, w, t, op, aux)
}

// runFOpCtx is runFOp under the caller's context (the package-level one, or one that the environment cancels
// in the middle of the operation).
func runFOpCtx(ctx context.Context, w *world.World, t *mast.Mast, op fOp, aux *mast.Mast) (world.Res, string) {
	cfg := w.Cfg
	var obs string
	res := guardRes(func() error {
		switch op.name {
		case "Insert":
			return t.Insert(ctx, cfg.FreshKey(op.k), cfg.FreshVal(op.v))
		case "Delete":
			return t.Delete(ctx, cfg.FreshKey(op.k), cfg.FreshVal(op.v))
		case "Get":
			p := newValPtrC(cfg)
			ok, err := t.Get(ctx, cfg.Key(op.k), p)
			if err == nil {
				obs = fmt.Sprintf("%v", ok)
				if ok {
					obs += fmt.Sprintf(":%d", cfg.ValIndex(derefValC(p)))
				}
			}
			return err
		case "Iter":
			var ks []int
			err := t.Iter(ctx, func(k, v interface{}) error { ks = append(ks, keyIndex(cfg, k)); return nil })
			obs = fmt.Sprint(ks)
			return err
		case "SeekIter":
			var ks []int
			err := t.SeekIter(ctx, cfg.Key(op.k), func(k, v interface{}) error { ks = append(ks, keyIndex(cfg, k)); return nil })
			obs = fmt.Sprint(ks)
			return err
		case "DiffIter":
			var ks []string
			err := t.DiffIter(ctx, aux, func(a, r bool, k, av, rv interface{}) (bool, error) {
				ks = append(ks, fmt.Sprintf("%v%v%d", a, r, keyIndex(cfg, k)))
				return true, nil
			})
			obs = fmt.Sprint(ks)
			return err
		case "DiffLinks":
			var evs []string
			err := t.DiffLinks(ctx, aux, func(r bool, l interface{}) (bool, error) {
				if s, ok := l.(string); ok {
					evs = append(evs, fmt.Sprintf("%v:%s", r, s))
				} else {
					evs = append(evs, fmt.Sprintf("%v:in-memory", r))
				}
				return true, nil
			})
			// the set of reported links: a name reported a second time after a transient fault inside the
			// already-notified memo (which swallows it by design) changes nothing for a replica and is not judged
			sort.Strings(evs)
			uniq := evs[:0]
			for i, e := range evs {
				if i == 0 || e != evs[i-1] {
					uniq = append(uniq, e)
				}
			}
			obs = fmt.Sprint(uniq)
			return err
		case "Clone":
			c, err := t.Clone(ctx)
			if err == nil {
				cc := w.ReadContents(&c)
				obs = cc.String()
			}
			return err
		case "DiffCursor":
			// StartDiff, then NextEntry until it reports the end; a NextEntry that fails is retried on the
			// very same cursor (lastCursorRun), and the walk goes on from there
			dc, err := t.StartDiff(ctx, aux)
			if err != nil {
				return err
			}
			cr := &cursorRun{}
			var ks []string
			done := false
			for i := 0; i < 2*cfg.NAll()+2; i++ {
				cr.steps = append(cr.steps, func() error {
					if done {
						return nil
					}
					d, err := dc.NextEntry(ctx)
					if err == mast.ErrNoMoreDiffs {
						done = true
						return nil
					}
					if err != nil {
						return err
					}
					ks = append(ks, fmt.Sprintf("%d:%d", d.Type, keyIndex(cfg, d.Key)))
					return nil
				})
			}
			cr.obsf = func() string { return fmt.Sprint(ks, done) }
			lastCursorRun.Store(w, cr)
			err = cr.resume()
			if err == nil {
				obs = cr.obs(cfg)
			}
			return err
		case "CursorMin", "CursorMax", "CursorCeil", "CursorMinFwd", "CursorMaxBack", "CursorCeilFwd", "CursorCeilBack":
			// a navigation sequence is a list of steps on one cursor; lastCursorRun remembers where
			// it stopped so that the failing step can be retried on the very same cursor
			cr := &cursorRun{}
			cur, err := t.Cursor(ctx)
			if err != nil {
				return err
			}
			cr.cur = cur
			switch op.name {
			case "CursorMin":
				cr.steps = []func() error{func() error { return cur.Min(ctx) }}
			case "CursorMax":
				cr.steps = []func() error{func() error { return cur.Max(ctx) }}
			case "CursorCeil":
				cr.steps = []func() error{func() error { return cur.Ceil(ctx, cfg.Key(op.k)) }}
			case "CursorMinFwd":
				cr.steps = []func() error{func() error { return cur.Min(ctx) }}
				for i := 0; i <= op.k; i++ {
					cr.steps = append(cr.steps, func() error { return cur.Forward(ctx) })
				}
			case "CursorMaxBack":
				cr.steps = []func() error{func() error { return cur.Max(ctx) }}
				for i := 0; i <= op.k; i++ {
					cr.steps = append(cr.steps, func() error { return cur.Backward(ctx) })
				}
			case "CursorCeilFwd":
				// a cursor placed by Ceil sits on a short path (possibly at an inner node): stepping from there
				cr.steps = []func() error{func() error { return cur.Ceil(ctx, cfg.Key(op.k)) }, func() error { return cur.Forward(ctx) }, func() error { return cur.Forward(ctx) }}
			case "CursorCeilBack":
				cr.steps = []func() error{func() error { return cur.Ceil(ctx, cfg.Key(op.k)) }, func() error { return cur.Backward(ctx) }, func() error { return cur.Backward(ctx) }}
			}
			lastCursorRun.Store(w, cr)
			err = cr.resume()
			if err == nil {
				obs = cr.obs(cfg)
			}
			return err
		}
		panic("unknown fOp " + op.name)
	})
	return res, obs
}

// cursorRun is a resumable navigation sequence on one cursor.
type cursorRun struct {
	cur   *mast.Cursor
	steps []func() error
	next  int
	obsf  func() string
}

func (c *cursorRun) resume() error {
	for c.next < len(c.steps) {
		if err := c.steps[c.next](); err != nil {
			return err // c.next still points at the failing step: "the same call retried"
		}
		c.next++
	}
	return nil
}

func (c *cursorRun) obs(cfg *world.Config) string {
	if c.obsf != nil {
		return c.obsf()
	}
	k, _, ok := c.cur.Get()
	o := fmt.Sprintf("%v", ok)
	if ok {
		o += fmt.Sprintf(":%d", keyIndex(cfg, k))
	}
	return o
}

var lastCursorRun sync.Map // *world.World -> *cursorRun

func newValPtrC(c *world.Config) interface{} { return world.NewValPtr(c) }
func derefValC(p interface{}) interface{}    { return world.DerefVal(p) }

func fOps(cfg *world.Config) []fOp {
	var ops []fOp
	for k := range cfg.Keys {
		for v := range cfg.Vals {
			ops = append(ops, fOp{name: "Insert", k: k, v: v})
			ops = append(ops, fOp{name: "Delete", k: k, v: v})
		}
		ops = append(ops, fOp{name: "Get", k: k}, fOp{name: "SeekIter", k: k}, fOp{name: "CursorCeil", k: k}, fOp{name: "CursorCeilFwd", k: k}, fOp{name: "CursorCeilBack", k: k})
	}
	for i := 0; i < len(cfg.Keys); i++ {
		ops = append(ops, fOp{name: "CursorMinFwd", k: i}, fOp{name: "CursorMaxBack", k: i})
	}
	ops = append(ops, fOp{name: "Get", k: len(cfg.Keys)}, fOp{name: "Iter"}, fOp{name: "DiffIter"}, fOp{name: "DiffLinks"}, fOp{name: "DiffCursor"}, fOp{name: "Clone"}, fOp{name: "CursorMin"}, fOp{name: "CursorMax"})
	return ops
}

// auxTree builds (fault-free) a second tree for diffs: a clone with the first present key removed
// and the first absent key added.
func auxTree(w *world.World, t *mast.Mast) *mast.Mast {
	c, err := t.Clone(ctx)
	if err != nil {
		return nil
	}
	cfg := w.Cfg
	cc := w.ReadContents(t)
	done := 0
	for k := range cfg.Keys {
		if vi, ok := cc.M[k]; ok && done&1 == 0 && vi >= 0 {
			if c.Delete(ctx, cfg.Keys[k], cfg.Vals[vi]) == nil {
				done |= 1
			}
		} else if !ok && done&2 == 0 {
			if c.Insert(ctx, cfg.Keys[k], cfg.Vals[0]) == nil {
				done |= 2
			}
		}
	}
	return &c
}

type c12Stats struct {
	evals, faultsHit, errorsReturned, panics, swallowed, swallowedDiffer int64
}

func layerClass(cfg *world.Config, k int) string {
	if k >= len(cfg.Keys) {
		return "probe"
	}
	if cfg.KS.Layer(cfg.Keys[k], cfg.BF) > 0 {
		return "higher-layer-key"
	}
	return "layer0-key"
}

// swallowMode: the fault enumeration run on behalf of another property. Only calls that returned nil although
// one of their environment calls failed are judged: what a call that reports success did must be what it
// does in the fault-free execution (its answer and the state it leaves). ops selects the operations.
type swallowMode struct {
	check string
	ops   map[string]bool
}

func c12State(run *report.Run, cfg *world.Config, hist []world.Op, acc *pairAcc, st *c12Stats, pairs bool) {
	c12StateMode(run, cfg, hist, acc, st, pairs, nil)
}

func c12StateMode(run *report.Run, cfg *world.Config, hist []world.Op, acc *pairAcc, st *c12Stats, pairs bool, sm *swallowMode) {
	build := func() (*world.World, *mast.Mast, *mast.Mast, bool) {
		w, err := explore.Replay(cfg, hist, true)
		if err != nil {
			return nil, nil, nil, false
		}
		t := w.Trees[0]
		aux := auxTree(w, t)
		w.Store.ResetLog()
		w.Store.Logging = false
		w.Cmp.Reset()
		w.Msh.Reset()
		return w, t, aux, true
	}
	for _, op := range fOps(cfg) {
		if sm != nil && !sm.ops[op.name] {
			continue
		}
		// 0 deviations: the reference execution
		w, t, aux, ok := build()
		if !ok {
			return
		}
		preC, preSize, preH := treeView(w, t)
		if preC.Bad != "" {
			return
		}
		w.Store.ResetLog()
		w.Store.Logging = false
		w.Cmp.Reset()
		w.Msh.Reset()
		res0, obs0 := runFOp(w, t, op, aux)
		nLoad, nCmp, nMsh := w.Store.NLoad, w.Cmp.N, w.Msh.N
		if res0.Panic != nil {
			continue // judged by C01/C06/C10
		}
		postC, postSize, postH := treeView(w, t)
		atomic.AddInt64(&st.evals, 1)
		type fault struct {
			kind string
			i, j int
		}
		var faults []fault
		for i := 0; i < nLoad; i++ {
			faults = append(faults, fault{"load", i, -1})
		}
		if cfg.CustomCompare {
			for i := 0; i < nCmp; i++ {
				faults = append(faults, fault{"compare", i, -1})
			}
		}
		if cfg.KS.Name == "struct" {
			for i := 0; i < nMsh; i++ {
				faults = append(faults, fault{"marshal", i, -1})
			}
		}
		// the caller's context is cancelled while the i-th Load is under way (the load itself succeeds: the
		// stores of the library do not look at the context either)
		for i := 0; i < nLoad; i++ {
			faults = append(faults, fault{"cancel", i, -1})
		}
		if pairs {
			for i := 0; i < nLoad; i++ {
				for j := i + 1; j < nLoad+2; j++ {
					faults = append(faults, fault{"load", i, j})
				}
			}
		}
		for _, f := range faults {
			w, t, aux, ok := build()
			if !ok {
				return
			}
			set := map[int]bool{f.i: true}
			if f.j >= 0 {
				set[f.j] = true
			}
			opCtx := ctx
			switch f.kind {
			case "load":
				w.Store.FailLoadAt = set
			case "compare":
				w.Cmp.FailAt = set
			case "marshal":
				w.Msh.FailAt = set
			case "cancel":
				cctx, cancel := context.WithCancel(ctx)
				defer cancel()
				opCtx = cctx
				var nl int32
				at := int32(f.i)
				w.Store.Gate = func(kind, name string) error {
					if kind == "load" && atomic.AddInt32(&nl, 1) == at+1 {
						cancel()
					}
					return nil
				}
			}
			res, obsF := runFOpCtx(opCtx, w, t, op, aux)
			w.Store.Gate = nil
			atomic.AddInt64(&st.evals, 1)
			w.Store.ClearFaults()
			w.Cmp.Reset()
			w.Msh.Reset()
			if res.Panic != nil {
				atomic.AddInt64(&st.panics, 1)
				continue // a panic under an injected fault is outside this property's wording
			}
			if res.Err == nil {
				atomic.AddInt64(&st.swallowed, 1)
				// diagnostic only (the property speaks of calls that return an error): did the
				// swallowed fault change what the operation did?
				c1, s1, h1 := treeView(w, t)
				differs := !c1.Equal(postC) || s1 != postSize || h1 != postH || obsF != obs0 || (res0.Err != nil) != (res.Err != nil)
				if differs {
					atomic.AddInt64(&st.swallowedDiffer, 1)
				}
				if differs && sm != nil {
					sigPart, whatPart := "under-a-failing-"+f.kind, fmt.Sprintf("although one of its %s calls failed", f.kind)
					if f.kind == "cancel" {
						sigPart, whatPart = "after-its-context-was-cancelled-during-a-load", "although its context was cancelled while one of its Load calls was under way"
					}
					acc.add(cfg, sm.check, []explore.Finding{{Sig: fmt.Sprintf("%s|%s|reported-success-%s-but-the-result-differs", sm.check, op.name, sigPart),
						What:   fmt.Sprintf("%s returned nil %s, and its answer or the state it leaves is not that of the fault-free execution", op.name, whatPart),
						Detail: fmt.Sprintf("fault-free: %q -> %v size=%d height=%d; with %s #%d failing: %q -> %v size=%d height=%d", obs0, postC, postSize, postH, f.kind, f.i, obsF, c1, s1, h1)}},
						append(cfg.DescribeHist(hist), fmt.Sprintf("then %s(%v) with %s #%d failing", op.name, cfg.Key(op.k), f.kind, f.i)))
				}
				continue
			}
			if sm != nil {
				continue
			}
			atomic.AddInt64(&st.errorsReturned, 1)
			if len(hist) >= 4 && f.i >= 1 && acc.wantSample() {
				acc.sample(map[string]interface{}{"config": cfg.Name, "pre_state_built_by": cfg.DescribeHist(hist), "operation": fmt.Sprintf("%s(%v)", op.name, cfg.Key(op.k)), "environment_calls_fault_free": map[string]int{"load": nLoad, "compare": nCmp, "marshal": nMsh},
					"deviation": fmt.Sprintf("%s call #%d returns an error", f.kind, f.i), "operation_returned": res.Err.Error()})
			}
			desc := append(cfg.DescribeHist(hist), fmt.Sprintf("then %s(%v) with %s #%d failing (and #%d)", op.name, cfg.Key(op.k), f.kind, f.i, f.j))
			c1, s1, h1 := treeView(w, t)
			var diffs []string
			if !c1.Equal(preC) {
				diffs = append(diffs, "contents")
			}
			if s1 != preSize {
				diffs = append(diffs, "size")
			}
			if h1 != preH {
				diffs = append(diffs, "height")
			}
			if len(diffs) > 0 {
				acc.add(cfg, "C12", []explore.Finding{{Sig: fmt.Sprintf("C12|%s|changed:%s|%s|%s", op.name, strings.Join(diffs, "+"), errOrigin(res.Err), report.Norm(c1.Bad)),
					What:   fmt.Sprintf("%s returned an error after a failing %s, but the tree is not what it was before the call (%v changed)", op.name, f.kind, diffs),
					Detail: fmt.Sprintf("error %v; before %v size=%d height=%d; after %v size=%d height=%d", res.Err, preC, preSize, preH, c1, s1, h1)}}, desc)
				continue
			}
			// retry after the fault has cleared; a cursor navigation is retried on the same cursor
			var res2 world.Res
			var obs2 string
			if cr, ok := lastCursorRun.Load(w); ok && (strings.HasPrefix(op.name, "Cursor") && cr.(*cursorRun).cur != nil || op.name == "DiffCursor") {
				c := cr.(*cursorRun)
				res2 = guardRes(c.resume)
				if res2.Err == nil && res2.Panic == nil {
					obs2 = c.obs(cfg)
				}
			} else {
				res2, obs2 = runFOp(w, t, op, aux)
			}
			lastCursorRun.Delete(w)
			c2, s2, h2 := treeView(w, t)
			if (res2.Err != nil) != (res0.Err != nil) || res2.Panic != nil || obs2 != obs0 || !c2.Equal(postC) || s2 != postSize || h2 != postH {
				acc.add(cfg, "C12", []explore.Finding{{Sig: fmt.Sprintf("C12|%s|retry-differs|%s|%s", op.name, errOrigin(res.Err), resClass(res2)),
					What:   fmt.Sprintf("%s retried after a failed %s does not give the normal result", op.name, f.kind),
					Detail: fmt.Sprintf("fault-free: %v %q -> %v size=%d height=%d; retry: %v %q -> %v size=%d height=%d", res0, obs0, postC, postSize, postH, res2, obs2, c2, s2, h2)}}, desc)
			}
		}
	}
}

// errOrigin abstracts an error text to where in the operation it arose (the
// wrapping prefixes), dropping the injected fault's own text and node names.
func errOrigin(err error) string {
	s := report.Norm(err.Error())
	s = strings.ReplaceAll(s, "verif:_injected_fault", "FAULT")
	s = strings.ReplaceAll(s, "persist_load_<name>:_", "")
	// the call site is the first two wrapping prefixes; what failed underneath (a load, a key
	// comparison on the loaded node, a marshal call) does not make it a different defect
	parts := strings.Split(s, ":_")
	if len(parts) > 2 {
		parts = parts[:2]
	}
	if parts[len(parts)-1] == "FAULT" && len(parts) > 1 {
		parts = parts[:len(parts)-1]
	}
	return "at:" + strings.Join(parts, ":_")
}

// seededFull: every key of the universe inserted and persisted+reloaded, then depth d.
func seededFull(c *world.Config, d int) *world.Config {
	for k := range c.Keys {
		c.Seed = append(c.Seed, world.Op{Kind: world.OpIns, K: k, V: 0})
	}
	c.Seed = append(c.Seed, world.Op{Kind: world.OpReload})
	c.MaxDepth = d
	c.Name = fmt.Sprintf("seeded-full/%s/depth%d", c.Name, d)
	return c
}

func C12Configs(thorough bool) []*world.Config {
	B, M := ref.FormatBinary, ref.FormatMarshaler
	cc := func(c *world.Config) *world.Config { c.CustomCompare = true; c.Name += "/countingcompare"; return c }
	cs := []*world.Config{
		world.UintCfg(2, urange(1, 5), 1, B, "none"),
		cc(world.UintCfg(2, urange(1, 4), 1, M, "none")),
		world.LKeyCfg(2, []uint8{0, 2, 0, 1, 0}, 1, B, "none"),
		world.StructCfg(2, []uint8{0, 1, 0, 2}, B, "none"),
		// a flat tree below two height thresholds at once (four layer-0 keys, then a layer-3 key: the insert grows
		// twice, the delete shrinks twice), keys layered through the marshaler, which can fail in either round
		world.StructCfg(2, []uint8{0, 0, 0, 0, 3}, M, "none"),
		world.IntCfg(2, []int{1, 2, 3, 4}, []interface{}{[]int{1}, []int{2, 3}}, []int{}, M, "none"),
		// height-3 trees (three loads on one descent): seeded starts, the states within one operation of them
		ChainSeeded(B, 1),
		seededFull(world.UintCfg(2, urange(0, 8), 1, M, "none"), 1),
		// an evicting cache shared by everything the history loaded: a failing operation must not leave
		// a half-processed object behind in it (capacity 1 and 2: loads still happen, hits interleave)
		world.UintCfg(2, urange(1, 5), 1, B, "tiny1"),
		world.UintCfg(2, urange(1, 5), 1, M, "tiny2"),
		// the same with failing comparisons and failing marshal calls: whatever a failed load leaves in the
		// cache (its verdict on a node it could not check, say) is seen by the retry and by everything after it
		cc(world.UintCfg(2, urange(1, 5), 1, B, "tiny1")),
		cc(world.UintCfg(2, urange(1, 4), 1, M, "tiny2")),
		cc(world.UintCfg(4, urange(1, 6), 1, B, "tiny1")),
		world.StructCfg(2, []uint8{0, 1, 0, 2}, B, "tiny1"),
		world.StructCfg(2, []uint8{0, 0, 1, 0}, M, "tiny2"),
	}
	if thorough {
		cs = append(cs, world.UintCfg(2, urange(1, 6), 1, B, "none"), world.UintCfg(2, urange(0, 8), 1, M, "none"), world.UintCfg(3, ulist(1, 2, 3, 4, 6, 9), 1, B, "none"),
			cc(world.UintCfg(2, urange(1, 5), 2, B, "none")), world.StructCfg(2, []uint8{0, 1, 0, 2, 0}, M, "none"))
		for _, l := range lkeyQuick {
			cs = append(cs, world.LKeyCfg(2, l, 1, B, "none"))
		}
	}
	return cs
}

func C12(run *report.Run) {
	acc := &pairAcc{}
	st := &c12Stats{}
	for _, cfg := range C12Configs(run.Thorough()) {
		hists := closureStatesBounded(run, "C12", cfg)
		run.States += int64(len(hists))
		parallelFor(len(hists), func(i int) {
			c12State(run, cfg, hists[i], acc, st, run.Thorough() && len(hists) < 400)
		})
		run.Parts = append(run.Parts, map[string]interface{}{"config": cfg.Name, "pre_states": len(hists)})
	}
	acc.flush(run)
	run.Evals = st.evals
	run.Distinct = st.errorsReturned
	run.Transitions = st.evals
	run.Validated = st.evals
	run.Extra["errors_returned_under_fault"] = st.errorsReturned
	run.Extra["faults_swallowed_or_not_reached"] = st.swallowed
	run.Extra["panics_under_fault_not_judged"] = st.panics
	run.Extra["swallowed_faults_that_changed_the_outcome_not_judged"] = st.swallowedDiffer
	run.AddSample(map[string]interface{}{"pre_state": "every state of the single-tree closure (all mixes of persisted / loaded / dirty nodes)", "operation": "Insert/Delete of every key and value, Get, Iter, SeekIter, DiffIter, DiffLinks, Clone, Cursor Min/Max/Ceil/Forward^k/Backward^k",
		"deviation": "the i-th Persist.Load (or KeyCompare, or Marshal) call of that operation returns an error, for every i (pairs i<j in the thorough tier)", "oracle": "if the call returned an error: contents/Size/Height unchanged and the retried call behaves like the fault-free execution"})
	run.Rule = "engine F: pre-states from engine W's closure; per (state, operation) a 0-deviation reference execution counts environment calls, then one execution per call index with that answer replaced by an error; distinct_nontrivial = executions in which the operation actually returned an error"
}

// swallowedFaultPass runs the fault enumeration for the given operations on behalf of check: see swallowMode.
func swallowedFaultPass(run *report.Run, check string, ops ...string) {
	B, M := ref.FormatBinary, ref.FormatMarshaler
	cc := func(c *world.Config) *world.Config { c.CustomCompare = true; c.Name += "/countingcompare"; return c }
	cfgs := []*world.Config{world.UintCfg(2, urange(1, 5), 1, B, "none"), cc(world.UintCfg(2, urange(1, 4), 1, M, "none")), world.StructCfg(2, []uint8{0, 1, 0, 2}, B, "none"), ChainSeeded(B, 1)}
	sm := &swallowMode{check: check, ops: map[string]bool{}}
	for _, o := range ops {
		sm.ops[o] = true
	}
	acc := &pairAcc{}
	st := &c12Stats{}
	for _, cfg := range cfgs {
		hists := closureStatesBounded(run, check, cfg)
		parallelFor(len(hists), func(i int) { c12StateMode(run, cfg, hists[i], acc, st, false, sm) })
		run.Parts = append(run.Parts, map[string]interface{}{"part": "calls that report success under a failing Load / KeyCompare / Marshal call", "config": cfg.Name, "pre_states": len(hists), "operations": ops})
	}
	acc.flush(run)
	run.Transitions += st.evals
	run.Validated += st.evals
	run.Extra["executions_with_one_failing_environment_call"] = st.evals
	run.Extra["of_which_reported_success"] = st.swallowed
}
