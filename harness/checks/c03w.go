package checks

import (
	"fmt"

	"verifharness/env"
	"verifharness/explore"
	"verifharness/ref"
	"verifharness/report"
	"verifharness/world"
)

// C03, part D (engine W): failing MakeRoot calls are ordinary transitions of the single-tree
// alphabet (OpPersistFail: a class of Store calls, or the i-th Marshal call of the flush, fails), so
// they occur at every reachable state and anywhere in a history - before modifications, between two
// successful persists, several in a row - with and without a node cache. Part A explores one failing
// call and its retries in depth; this part explores what a failed call leaves behind for everything
// that follows.
type c03wMon struct {
	explore.NopMonitor
}

type c03wPre struct {
	c world.Contents
}

func (m *c03wMon) Before(w *world.World, op world.Op) interface{} {
	if op.Kind != world.OpPersistFail {
		return nil
	}
	return c03wPre{c: w.ReadContents(w.Trees[op.A])}
}

func (m *c03wMon) After(w *world.World, op world.Op, res world.Res, pre interface{}) []explore.Finding {
	var out []explore.Finding
	if res.Panic != nil && isPersistOp(op.Kind) {
		return []explore.Finding{{Sig: "C03|history|MakeRoot-panicked|" + resClass(res), What: "MakeRoot panicked", Detail: fmt.Sprint(res.Panic), Block: true}}
	}
	if op.Kind == world.OpPersistFail {
		failed := false
		for _, c := range res.Calls {
			if c.Kind == "store" && c.Err {
				failed = true
			}
		}
		if res.Err == nil && failed {
			out = append(out, explore.Finding{Sig: "C03|history|write-failed-but-success-reported", What: "a Store call failed but MakeRoot reported success", Detail: fmt.Sprintf("root %+v", res.Root), Block: true})
		}
		if res.Err != nil {
			p := pre.(c03wPre)
			if got := w.ReadContents(w.Trees[op.A]); p.c.Bad == "" && !got.Equal(p.c) {
				out = append(out, explore.Finding{Sig: "C03|history|tree-unusable-after-failed-MakeRoot|" + report.Norm(got.Bad), What: "after MakeRoot failed, the tree no longer answers Get/Size as before", Detail: fmt.Sprintf("before %v after %v (%v)", p.c, got, res.Err), Block: true})
			}
			return out
		}
	}
	if !isPersistOp(op.Kind) || res.Root == nil || res.Panic != nil {
		return out
	}
	if res.Err != nil && (op.Kind == world.OpPersist || op.Kind == world.OpKeep) {
		return append(out, explore.Finding{Sig: "C03|history|MakeRoot-failed-on-healthy-store|" + resClass(res), What: "MakeRoot failed although nothing in its environment failed (earlier failures had cleared)", Detail: res.String(), Block: true})
	}
	// the returned root is complete: every node reachable from it is in the store under its own name
	if _, err := codecFor(w.Cfg).Walk(w.Cfg.KS, storeGet(w.Store), linkOf(res.Root), nil); err != nil {
		out = append(out, explore.Finding{Sig: "C03|history|success-but-node-missing", What: "MakeRoot reported success but a node reachable from the returned root is not in the store (or not under the name of its bytes)", Detail: err.Error(), Block: true})
	}
	return out
}

var _ = env.ErrInjected

func c03Histories(run *report.Run) {
	B, M := ref.FormatBinary, ref.FormatMarshaler
	cfgs := []*world.Config{
		world.WithFlushFaults(world.UintCfg(2, urange(1, 5), 1, B, "none")),
		world.WithFlushFaults(depth(world.UintCfg(2, urange(1, 4), 1, M, "big"), 6)),
		world.WithFlushFaults(depth(world.UintCfg(2, urange(1, 4), 1, B, "tiny1"), 6)),
	}
	if run.Thorough() {
		cfgs = append(cfgs, world.WithFlushFaults(world.UintCfg(2, urange(0, 8), 1, M, "none")), world.WithFlushFaults(depth(world.UintCfg(2, urange(1, 5), 1, B, "big"), 8)),
			world.WithFlushFaults(world.LKeyCfg(2, []uint8{0, 2, 0, 1, 0}, 1, B, "none")))
	}
	runSingle(run, "C03", cfgs, func(*world.Config) explore.Monitor { return &c03wMon{} }, stdOps)
}
