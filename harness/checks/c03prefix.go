package checks

import (
	"fmt"
	"runtime"

	"github.com/jrhy/mast"
	"verifharness/explore"
	"verifharness/report"
	"verifharness/world"
)

// c03StoreSuccession: in-memory stores that live one after another in one process while a NodeCache outlives
// them (a long-running service that rebuilds its scratch store, a test suite sharing one cache). Each round makes
// a new mast.NewInMemoryStore(), persists the same small tree to it through the shared cache and judges the round
// with the property's own oracle: every node reachable from the returned root is in *that* store. Then the store
// is dropped and the garbage collector runs. A store that identifies itself by something a later store can get
// again (its address) makes the cache answer "already stored" for a store that holds nothing.
//
// This part is a guard, not an enumeration: whether the allocator hands an address out again is not a choice the
// explorer owns. It cannot raise an alarm where store identities are unique, and it says so in the evidence.
func c03StoreSuccession(run *report.Run, acc *pairAcc) {
	cfg := &world.Config{Name: "in-memory stores one after another over one NodeCache"}
	cache := mast.NewNodeCache(1000)
	rounds := 300
	seen := map[string]int{}
	reused := 0
	for i := 0; i < rounds; i++ {
		st := mast.NewInMemoryStore()
		prefix := st.NodeURLPrefix()
		if _, dup := seen[prefix]; dup {
			reused++
		}
		seen[prefix] = i
		rc := &mast.RemoteConfig{KeysLike: 0, ValuesLike: "", StoreImmutablePartsWith: st, NodeCache: cache}
		var root *mast.Root
		r := guardRes(func() error {
			t, err := mast.NewRoot(&mast.CreateRemoteOptions{BranchFactor: 2}).LoadMast(ctx, rc)
			if err != nil {
				return err
			}
			for k := 1; k <= 6; k++ {
				if err := t.Insert(ctx, k, "v"); err != nil {
					return err
				}
			}
			root, err = t.MakeRoot(ctx)
			return err
		})
		if r.Err != nil || r.Panic != nil {
			acc.add(cfg, "C03", []explore.Finding{{Sig: "C03|store-succession|MakeRoot-failed|" + resClass(r), What: "MakeRoot into a fresh in-memory store failed", Detail: r.String()}}, []string{cfg.Name})
			return
		}
		// complete in this store? (a cold handle without cache reads every node from the store itself)
		r = guardRes(func() error {
			t, err := root.LoadMast(ctx, &mast.RemoteConfig{KeysLike: 0, ValuesLike: "", StoreImmutablePartsWith: st})
			if err != nil {
				return err
			}
			n := 0
			if err := t.Iter(ctx, func(k, v interface{}) error { n++; return nil }); err != nil {
				return err
			}
			if n != 6 {
				return fmt.Errorf("%d entries readable, 6 persisted", n)
			}
			return nil
		})
		if r.Err != nil || r.Panic != nil {
			acc.add(cfg, "C03", []explore.Finding{{Sig: "C03|store-succession|node-skipped-because-cached-for-an-earlier-store", What: "MakeRoot reported success but the store it persisted to lacks nodes: the shared cache had seen them for an earlier store that identified itself the same way", Detail: fmt.Sprintf("round %d, NodeURLPrefix %q (first seen in round %d): %v", i, prefix, seen[prefix], r)}},
				[]string{cfg.Name, "per round: NewInMemoryStore, tree {1..6} at bf 2 through the shared NodeCache, MakeRoot, cold read of the root from that store, drop the store, runtime.GC()"})
			break
		}
		st = nil
		runtime.GC()
	}
	run.Parts = append(run.Parts, map[string]interface{}{"part": "succession of in-memory stores over one NodeCache (guard, not exhaustive: address reuse is the allocator's choice)", "rounds": rounds, "rounds_in_which_a_prefix_came_back": reused})
}
