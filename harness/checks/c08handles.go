package checks

import (
	"fmt"

	"github.com/jrhy/mast"
	"verifharness/env"
	"verifharness/explore"
	"verifharness/report"
	"verifharness/world"
)

// c08HandleIndependence: the bytes (hence the names) written for given entries do not depend on how the writing
// handle was opened for *reading*. Every non-empty subset of four int keys x two string values per key is built
// and persisted through four handles on fresh stores - fully configured; without ValuesLike (registered types: a
// writer that only knows the key type); with registered types although both types are given; through a NodeCache -
// and all four must return the same Root and have stored the same (name, bytes) pairs.
func c08HandleIndependence(run *report.Run, acc *pairAcc) {
	cfg := &world.Config{Name: "one set of entries written through differently configured handles"}
	type variant struct {
		name string
		rc   func(st *env.Store) *mast.RemoteConfig
	}
	variants := []variant{
		{"KeysLike+ValuesLike", func(st *env.Store) *mast.RemoteConfig {
			return &mast.RemoteConfig{KeysLike: 0, ValuesLike: "", StoreImmutablePartsWith: st}
		}},
		{"KeysLike only, registered types", func(st *env.Store) *mast.RemoteConfig {
			return &mast.RemoteConfig{KeysLike: 0, StoreImmutablePartsWith: st, UnmarshalerUsesRegisteredTypes: true}
		}},
		{"KeysLike+ValuesLike, registered types", func(st *env.Store) *mast.RemoteConfig {
			return &mast.RemoteConfig{KeysLike: 0, ValuesLike: "", StoreImmutablePartsWith: st, UnmarshalerUsesRegisteredTypes: true}
		}},
		{"KeysLike+ValuesLike, NodeCache", func(st *env.Store) *mast.RemoteConfig {
			return &mast.RemoteConfig{KeysLike: 0, ValuesLike: "", StoreImmutablePartsWith: st, NodeCache: mast.NewNodeCache(100)}
		}},
	}
	keys := []int{1, 2, 3, 4}
	var evals int64
	for _, nf := range []string{string(mast.V115Binary), string(mast.V1Marshaler)} {
		// assignment: per key 0 = absent, 1 = "a", 2 = "b"
		for code := 1; code < 81; code++ {
			var first *mast.Root
			var firstStore map[string]string
			for vi, v := range variants {
				st := env.NewStore("mem://handles/")
				var root *mast.Root
				r := guardRes(func() error {
					opts := &mast.CreateRemoteOptions{BranchFactor: 2}
					if nf == string(mast.V1Marshaler) {
						opts.NodeFormat = mast.V1Marshaler
					}
					t, err := mast.NewRoot(opts).LoadMast(ctx, v.rc(st))
					if err != nil {
						return err
					}
					c := code
					for _, k := range keys {
						switch c % 3 {
						case 1:
							err = t.Insert(ctx, k, "a")
						case 2:
							err = t.Insert(ctx, k, "b")
						}
						c /= 3
						if err != nil {
							return err
						}
					}
					root, err = t.MakeRoot(ctx)
					return err
				})
				evals++
				desc := []string{cfg.Name, fmt.Sprintf("format %s, entries by base-3 code %d over keys 1..4 (1 = \"a\", 2 = \"b\"), handle: %s", nf, code, v.name)}
				if r.Err != nil || r.Panic != nil {
					acc.add(cfg, "C08", []explore.Finding{{Sig: "C08|handle-independence|persist-failed|" + report.Norm(v.name) + "|" + resClass(r), What: "persisting through a differently configured handle failed", Detail: r.String()}}, desc)
					continue
				}
				stored := map[string]string{}
				for _, n := range st.Names() {
					b, _ := st.Has(n)
					stored[n] = string(b)
				}
				if vi == 0 {
					first, firstStore = root, stored
					continue
				}
				if first == nil {
					continue
				}
				same := linkOf(root) == linkOf(first) && root.Size == first.Size && root.Height == first.Height && len(stored) == len(firstStore)
				for n, b := range stored {
					if firstStore[n] != b {
						same = false
					}
				}
				if !same {
					acc.add(cfg, "C08", []explore.Finding{{Sig: "C08|handle-independence|bytes-depend-on-the-writing-handle|" + report.Norm(v.name), What: "the same entries written through a differently configured handle give other node bytes / names", Detail: fmt.Sprintf("root %q vs %q (%d vs %d nodes)", linkOf(root), linkOf(first), len(stored), len(firstStore))}}, desc)
				}
			}
		}
	}
	run.Evals += evals
	run.Parts = append(run.Parts, map[string]interface{}{"part": "every entry set of 4 keys x 2 values written through 4 differently configured handles: same root, same (name, bytes)", "persists": evals})
}
