//go:build sched

package checks

import (
	"encoding/json"
	"fmt"
	"os"
	"os/exec"
	"runtime"
	"strconv"
	"strings"
	"sync"

	"github.com/jrhy/mast/verifrt"
	"verifharness/report"
	"verifharness/sched"
	"verifharness/world"
)

type c11ShardResult struct {
	Schedules       int64
	Scenarios       int
	MaxPoints       int
	Outcomes        int
	Capped          bool
	Findings        []report.Violation
	Errors          []string
	Sample          map[string]interface{}
	CappedScenarios int
}

func c11RunScenario(sc c11Scenario, res *c11ShardResult, budget int64) {
	cfg := c11Configs()[sc.Cfg]
	refs := make([]string, len(sc.Seqs))
	for i := range sc.Seqs {
		r, err := c11Alone(sc, i)
		if err != nil {
			res.Errors = append(res.Errors, err.Error())
			return
		}
		refs[i] = r
	}
	setup := func() func() func(*verifrt.Result) sched.Outcome {
		cw, err := c11Setup(sc)
		if err != nil {
			return func() func(*verifrt.Result) sched.Outcome {
				return func(*verifrt.Result) sched.Outcome { return sched.Outcome{Obs: "harness:" + err.Error()} }
			}
		}
		obs := make([]string, len(sc.Seqs))
		return func() func(*verifrt.Result) sched.Outcome { // thread 0
			cw.w.Store.Gate = func(kind, name string) error { verifrt.Env(kind); return nil }
			if cw.w.Cache != nil {
				cw.w.Cache.Gate = func(kind, name string) { verifrt.Env(kind) }
			}
			if cfg.KS.Name == "struct" {
				cw.w.MshGate = func() { verifrt.Env("marshal") }
			}
			var wg verifrt.WaitGroup
			wg.Add(len(sc.Seqs))
			for i := range sc.Seqs {
				i := i
				verifrt.Go(func() {
					defer wg.Done()
					obs[i] = runThread(cw.w, cw.trees[i], cw.root, sc.Seqs[i])
				})
			}
			wg.Wait()
			return func(*verifrt.Result) sched.Outcome {
				cw.w.Store.Gate = nil
				cw.w.MshGate = nil
				if cw.w.Cache != nil {
					cw.w.Cache.Gate = nil
				}
				out := sched.Outcome{Obs: strings.Join(obs, " || ")}
				for i := range obs {
					if obs[i] != refs[i] {
						out.Findings = append(out.Findings, fmt.Sprintf("thread-observes-differently-than-alone|%s\x00a goroutine working on its own tree observed something different from what it observes when it runs alone\x00thread %d alone: %s; concurrently: %s", firstDivergence(sc.Seqs[i], refs[i], obs[i]), i, refs[i], obs[i]))
					}
				}
				for _, withCache := range []bool{false, true} {
					t, err := cw.root.LoadMast(ctx, cw.w.RemoteConfig(cw.w.Store, withCache))
					var c world.Contents
					if err == nil {
						c = cw.w.ReadContents(t)
					}
					if err != nil || !c.Equal(cw.baseC) {
						out.Findings = append(out.Findings, fmt.Sprintf("base-version-changed|cache=%v\x00the persisted base version no longer reloads to its contents\x00want %v got %v (%v)", withCache, cw.baseC, c, err))
					}
				}
				return out
			}
		}
	}
	ex := &sched.Explorer{Bound: sc.Bound, MaxPoints: 20000, Budget: budget}
	ex.Explore(setup)
	if os.Getenv("VERIF_DEBUG") != "" {
		fmt.Fprintf(os.Stderr, "c11 scenario cfg=%d base=%v cap=%s seqs=%v: schedules=%d maxpoints=%d outcomes=%d capped=%v\n", sc.Cfg, sc.Base, sc.Capture, sc.Seqs, ex.Schedules, ex.MaxSeen, len(ex.Outcomes), ex.Capped)
	}
	res.Schedules += ex.Schedules
	res.Scenarios++
	if ex.MaxSeen > res.MaxPoints {
		res.MaxPoints = ex.MaxSeen
	}
	res.Outcomes += len(ex.Outcomes)
	if ex.Capped {
		res.Capped = true
		res.CappedScenarios++
	}
	if res.Sample == nil && ex.Schedules > 50 {
		var outs []string
		for o := range ex.Outcomes {
			outs = append(outs, o)
		}
		res.Sample = map[string]interface{}{"config": cfg.Name, "base_version_key_indexes": sc.Base, "capture": sc.Capture, "threads": fmt.Sprint(sc.Seqs), "preemption_bound": sc.Bound,
			"schedules_explored": ex.Schedules, "one_of_them": ex.Sample, "observed_outcomes": outs, "each_thread_alone": refs}
	}
	if ex.Divergence != "" {
		res.Errors = append(res.Errors, fmt.Sprintf("replay divergence base=%v seqs=%v: %s", sc.Base, sc.Seqs, ex.Divergence))
	}
	for sig, f := range ex.Findings {
		res.Findings = append(res.Findings, report.Violation{Sig: "C11|" + sig + "|capture=" + sc.Capture + "|cache=" + cfg.Cache, What: f.What, Detail: f.Detail, Config: cfg.Name, Check: "C11-sched",
			History: []string{fmt.Sprintf("base version keys %v persisted; capture=%s", sc.Base, sc.Capture), fmt.Sprintf("threads: %v", sc.Seqs), fmt.Sprintf("schedule (choice per scheduling point): %v", f.Choices)},
			Replay:  map[string]interface{}{"scenario": sc, "choices": f.Choices}, Count: f.Count})
	}
}

func firstDivergence(seq []tOp, a, b string) string {
	kinds := ""
	for _, o := range seq {
		kinds += o.Kind + "+"
	}
	return strings.TrimSuffix(kinds, "+")
}

func C11Shard(args []string) int {
	i, _ := strconv.Atoi(args[0])
	n, _ := strconv.Atoi(args[1])
	thorough := os.Getenv("VERIF_TIER") == "thorough"
	res := &c11ShardResult{}
	budget := int64(50000)
	if thorough {
		budget = 150000
	}
	for j, sc := range c11Scenarios(thorough) {
		if j%n == i {
			c11RunScenario(sc, res, budget)
		}
	}
	json.NewEncoder(os.Stdout).Encode(res)
	return 0
}

func C11(run *report.Run) {
	self, _ := os.Executable()
	n := runtime.NumCPU()
	results := make([]*c11ShardResult, n)
	var wg sync.WaitGroup
	for i := 0; i < n; i++ {
		wg.Add(1)
		go func(i int) {
			defer wg.Done()
			cmd := exec.Command(self, "c11-shard", strconv.Itoa(i), strconv.Itoa(n))
			cmd.Env = append(os.Environ(), "GOMAXPROCS=2")
			out, err := cmd.Output()
			r := &c11ShardResult{}
			if err != nil {
				stderr := ""
				if ee, ok := err.(*exec.ExitError); ok {
					stderr = string(ee.Stderr)
					if len(stderr) > 3000 {
						stderr = stderr[:3000]
					}
				}
				// the exploring process died inside the code under test
				r.Findings = append(r.Findings, report.Violation{Sig: "C11|exploring-process-crashed", What: "the process exploring interleavings crashed inside the code under test", Detail: fmt.Sprintf("%v %s", err, stderr), Check: "C11-sched"})
			} else if err := json.Unmarshal(out, r); err != nil {
				r.Errors = append(r.Errors, fmt.Sprintf("shard %d: bad output: %v", i, err))
			}
			results[i] = r
		}(i)
	}
	wg.Wait()
	var schedules int64
	scen, maxp, outc, capped := 0, 0, 0, 0
	for _, r := range results {
		capped += r.CappedScenarios
		schedules += r.Schedules
		scen += r.Scenarios
		outc += r.Outcomes
		if r.MaxPoints > maxp {
			maxp = r.MaxPoints
		}
		if r.Capped {
			run.Exhaustive = false
		}
		for _, e := range r.Errors {
			run.HarnessError("%s", e)
		}
		for _, v := range r.Findings {
			run.Add(v)
		}
		if r.Sample != nil && len(run.Samples) < 2 {
			run.AddSample(r.Sample)
		}
	}
	c11RacePass(run)
	c11Synctest(run)
	run.States = int64(scen)
	run.Transitions = schedules
	run.Validated = schedules
	run.Extra["schedules_explored"] = schedules
	run.Extra["scenarios"] = scen
	if capped > 0 {
		run.Extra["scenarios_cut_at_the_schedule_budget"] = capped
	}
	run.Extra["max_scheduling_points_in_one_execution"] = maxp
	run.Extra["distinct_outcomes_summed_over_scenarios"] = outc
	run.Extra["sync_level"] = true
	run.AddSample(map[string]interface{}{"base": "a persisted version (uint keys {1,2,4,5}; a height-2 user-key tree; an evicting cache)", "threads": "2 (3 in the thorough tier), each with its own tree: LoadMast of the same root through the shared cache, or Clone",
		"ops": "every pair of single operations from {Get, Insert, Delete on colliding keys, Iter, MakeRoot, Clone, LoadMast}; insert+MakeRoot against every single operation", "scheduling_points": "every Persist.Load/Store, every NodeCache Get/Add/Contains, goroutine start, Lock, channel send/receive, WaitGroup.Wait",
		"oracle": "each thread's results and final contents equal those of the same thread running alone; the base root reloads (with and without cache) to its contents"})
	run.Rule = "engine S: stateless DFS over all schedules with at most 2 preemptions (1 for the longer sequences) per scenario; every schedule executes the real (instrumented) code; plus a separate free-running pass of the same thread bodies under the Go race detector"
	run.Assumptions = append(run.Assumptions, "sequential consistency; between two scheduling points a thread runs atomically (unsynchronised accesses are the job of the separate -race pass)", "more than 2 preemptions and more than 3 threads are outside the bound")
}
