package checks

import (
	"fmt"
	"math"
	"os"
	"strings"
	"sync"

	"verifharness/explore"
	"verifharness/ref"
	"verifharness/report"
	"verifharness/world"
)

func urange(lo, hi uint) []interface{} {
	var out []interface{}
	for x := lo; x <= hi; x++ {
		out = append(out, x)
	}
	return out
}

func ulist(xs ...uint) []interface{} {
	out := make([]interface{}, len(xs))
	for i, x := range xs {
		out[i] = x
	}
	return out
}

var lkeyQuick = [][]uint8{{0, 1, 0, 2, 0}, {2, 0, 0, 0, 2}, {0, 0, 2, 0, 0}, {3, 0, 1, 0, 3}, {1, 1, 1, 1, 1}, {0, 2, 2, 2, 0}, {0, 0, 0, 0, 3}, {1, 0, 3, 0, 1}}

// allLayerAssignments enumerates every assignment of layers 0..maxL to n keys.
func allLayerAssignments(n int, maxL uint8) [][]uint8 {
	var out [][]uint8
	cur := make([]uint8, n)
	var rec func(i int)
	rec = func(i int) {
		if i == n {
			out = append(out, append([]uint8{}, cur...))
			return
		}
		for l := uint8(0); l <= maxL; l++ {
			cur[i] = l
			rec(i + 1)
		}
	}
	rec(0)
	return out
}

// StructConfigs is the family of configurations used by the checks that look at
// persisted structure (C04 C05 C08 C09 C13 C16). caches selects cache kinds.
func StructConfigs(thorough bool, caches []string, formats []string) []*world.Config {
	var cs []*world.Config
	for _, cache := range caches {
		for fi, f := range formats {
			if cache == "none" {
				cs = append(cs, world.UintCfg(2, urange(1, 5), 2, f, cache))
				if fi == 0 {
					cs = append(cs, world.UintCfg(2, urange(0, 8), 1, f, cache))
					cs = append(cs, world.UintCfg(3, ulist(1, 2, 3, 4, 5, 6, 9), 1, f, cache))
				} else {
					cs = append(cs, world.UintCfg(4, ulist(1, 2, 3, 4, 5, 8, 16), 1, f, cache))
				}
				if thorough {
					cs = append(cs, world.UintCfg(2, urange(1, 7), 2, f, cache))
					cs = append(cs, world.UintCfg(3, ulist(1, 2, 3, 4, 5, 6, 7, 8, 9, 12, 18), 1, f, cache))
				}
			} else {
				cs = append(cs, world.UintCfg(2, ulist(1, 2, 4), 1, f, cache))
				cs = append(cs, depth(world.UintCfg(2, urange(1, 5), 1, f, cache), 7))
				if thorough {
					cs = append(cs, depth(world.UintCfg(2, urange(1, 5), 2, f, cache), 7))
				}
			}
		}
	}
	ls := lkeyQuick
	if thorough {
		ls = allLayerAssignments(5, 3)
	}
	for i, l := range ls {
		f := formats[i%len(formats)]
		cs = append(cs, world.LKeyCfg(2, l, 1, f, "none"))
	}
	f0 := formats[0]
	// non-initial start: a height-3 tree with chains of stacked pass-through nodes (10 user keys, only layer-0
	// keys under a layer-3 key), all inserted and persisted, then every history of length <= 3 from there
	cs = append(cs, ChainSeeded(f0, 3))
	// the default branch factor 16 needs 17+ entries for height 1: a seeded start, then all histories of length <= 2
	cs = append(cs, Seeded16(formats[len(formats)-1], 2))
	// values with indirection
	cs = append(cs, world.IntCfg(2, []int{1, 2, 3, 4, 8}, []interface{}{[]int{1}, []int{2, 3}}, []int{}, f0, "none"))
	// values that differ only as nil versus empty (written as null and ""): an update between them is a change
	cs = append(cs, world.IntCfg(2, []int{1, 2, 4}, []interface{}{[]byte(nil), []byte{}, []byte{0}}, []byte{}, f0, "none"))
	cs = append(cs, world.StringCfg(2, []uint8{0, 1, 0, 2, 0}, f0, "none"))
	// the same family of strings at another branch factor, after the one above (a layer must not be remembered across branch factors)
	cs = append(cs, world.StringCfg(4, []uint8{0, 0, 1, 0, 0, 0}, f0, "none"))
	// and once more with the library's default marshaler (RemoteConfig.Marshal left nil), at both branch factors
	for _, bf := range []uint{2, 4} {
		dm := world.StringCfg(bf, map[uint][]uint8{2: {0, 1, 0, 2, 0}, 4: {0, 0, 1, 0, 0, 0}}[bf], f0, "none")
		dm.DefaultMarshal = true
		dm.Name = "default-marshaler/" + dm.Name
		cs = append(cs, dm)
	}
	cs = append(cs, world.BytesCfg(2, []uint8{0, 1, 0, 2, 0}, formats[len(formats)-1], "none"))
	cs = append(cs, world.StructCfg(2, []uint8{0, 1, 0, 2, 0}, formats[len(formats)-1], "none"))
	cs = append(cs, world.IntCfg(2, []int{-4, -2, -1, 0, 1, 2, 4}, []interface{}{"a"}, "", f0, "none"))
	// 64-bit keys further apart than the type can express as a difference
	cs = append(cs, world.Int64Cfg(2, []int64{math.MinInt64 + 3, -4, 0, 6, math.MaxInt64 - 3}, f0, "none"))
	// narrow integer keys: numeric layers, ordered by their decimal text ("10" < "9")
	cs = append(cs, world.Int32Cfg(2, []int32{-2, 9, 10, 100, 4}, f0, "none"))
	cs = append(cs, world.Uint8Cfg(2, []uint8{2, 10, 100, 9, 200}, formats[len(formats)-1], "none"))
	// a comparator answering -3/0/3
	cs = append(cs, world.Wide(world.UintCfg(2, urange(1, 5), 1, formats[len(formats)-1], "none")))
	// two live trees sharing in-memory nodes (clone either way), both modified and persisted
	cs = append(cs, world.WithTwoSlots(world.UintCfg(2, ulist(1, 2, 3, 4), 1, f0, "none"), 5))
	cs = append(cs, world.WithTwoSlots(world.UintCfg(2, ulist(1, 2, 4), 1, formats[len(formats)-1], "big"), 5))
	for _, cache := range caches {
		if cache == "big" {
			// node objects shared through the cache: spare capacity in a cached node's slices (exact key), and
			// two trees of one version loaded through the same warm cache
			cs = append(cs, world.ExactKey(depth(world.IntCfg(4, []int{1, 4, 5, 8, 9, 12}, []interface{}{"a", "b"}, "", f0, "big"), 5)))
			sd := 4
			if thorough {
				sd = 6
			}
			cs = append(cs, SharedCacheSeeded(f0, sd))
			cs = append(cs, SharedCacheSeededSplit(formats[len(formats)-1], sd))
		}
	}
	// failing MakeRoot calls (a class of Store calls or one Marshal call fails) anywhere in the history
	cs = append(cs, world.WithFlushFaults(world.UintCfg(2, urange(1, 4), 1, f0, "none")))
	cs = append(cs, world.WithFlushFaults(depth(world.UintCfg(2, urange(1, 4), 1, formats[len(formats)-1], "big"), 6)))
	// ... and to closure (no depth bound) with a cache on a three-key universe: histories of any length in which
	// flushes fail half-way, are retried, and later versions return to node contents written before
	for _, cache := range caches {
		if cache == "big" {
			cs = append(cs, world.WithFlushFaults(world.UintCfg(2, ulist(1, 2, 4), 1, f0, "big")))
		}
	}
	return cs
}

// ChainSeeded is the seeded height-3 configuration described above.
func ChainSeeded(format string, d int) *world.Config {
	c := world.LKeyCfg(2, []uint8{0, 0, 0, 0, 3, 0, 0, 0, 1, 3}, 1, format, "none")
	for k := range c.Keys {
		c.Seed = append(c.Seed, world.Op{Kind: world.OpIns, K: k, V: 0})
	}
	c.Seed = append(c.Seed, world.Op{Kind: world.OpReload})
	c.MaxDepth = d
	c.Name = fmt.Sprintf("seeded-height3-chain/%s/depth%d", c.Name, d)
	return c
}

// LateInsertSeeded: branch factor 4, int keys {1,4,5,8,9,10,12,13}; 1,5,10,13,4,8,12 inserted in that
// order (the leaves keep spare capacity in their slices, which an aliasing append would write into)
// and persisted with a node cache attached; then every history of length <= d.
func LateInsertSeeded(format string, d int) *world.Config {
	c := world.IntCfg(4, []int{1, 4, 5, 8, 9, 10, 12, 13}, []interface{}{"a"}, "", format, "big")
	for _, k := range []int{0, 2, 5, 7, 1, 3, 6} {
		c.Seed = append(c.Seed, world.Op{Kind: world.OpIns, K: k, V: 0})
	}
	c.Seed = append(c.Seed, world.Op{Kind: world.OpPersist})
	c.MaxDepth = d
	c.Name = fmt.Sprintf("seeded-late-inserts/%s/depth%d", c.Name, d)
	return c
}

// SharedCacheSeeded: branch factor 4, int keys {1,2,4,5,6,8,9,10}; [1] 4 [5] 8 [9 10] built, separators first
// (the one-key leaves are created last and keep spare capacity in their slices: measured, cap 4), persisted with a node cache attached, the root kept and loaded into a second
// tree through the warm cache: two trees of one version sharing cached node objects. Then every history
// of length <= d of the two-slot alphabet.
func SharedCacheSeeded(format string, d int) *world.Config {
	c := world.IntCfg(4, []int{1, 2, 4, 5, 6, 8, 9, 10}, []interface{}{"a"}, "", format, "big")
	for _, k := range []int{2, 5, 6, 7, 3, 0} {
		c.Seed = append(c.Seed, world.Op{Kind: world.OpIns, K: k, V: 0})
	}
	c.Seed = append(c.Seed, world.Op{Kind: world.OpKeep, A: 0, B: 0}, world.Op{Kind: world.OpLoad, A: 1, B: 0})
	c.TwoSlots = true
	c.MaxDepth = d
	c.Name = fmt.Sprintf("seeded-shared-cache-two-trees/%s/depth%d", c.Name, d)
	return c
}

// SharedCacheSeededSplit: the same start with another shape - [1 2 3] 8 [] 12 [] 16 at branch factor 4, keys 0
// and 4 absent: inserting 4 splits a leaf that both trees hold through the cache, inserting 0 extends it.
func SharedCacheSeededSplit(format string, d int) *world.Config {
	c := world.IntCfg(4, []int{0, 1, 2, 3, 4, 8, 12, 16}, []interface{}{"a"}, "", format, "big")
	for _, k := range []int{5, 6, 7, 1, 2, 3} {
		c.Seed = append(c.Seed, world.Op{Kind: world.OpIns, K: k, V: 0})
	}
	c.Seed = append(c.Seed, world.Op{Kind: world.OpKeep, A: 0, B: 0}, world.Op{Kind: world.OpLoad, A: 1, B: 0})
	c.TwoSlots = true
	c.MaxDepth = d
	c.Name = fmt.Sprintf("seeded-shared-cache-two-trees-one-wide-leaf/%s/depth%d", c.Name, d)
	return c
}

// OverTall: histories that start from an empty root recording height 2 (see Config.StartHeight). The start is
// hand-made (the library never hands out such a root; it stands in for versions older releases left too tall),
// so only monitors that judge what is written and read back run it (C05, C08) - not C01 (emptying such a tree
// again is refused by Delete: "tree with empty root but height 2", which I do not count against the library)
// and not C04/C09 (their reference is the canonical tree).
func OverTall(format string) *world.Config {
	ot := world.UintCfg(2, ulist(1, 2, 3, 5, 6), 1, format, "none")
	ot.StartHeight = 2
	ot.Name = "starts-at-height-2/" + ot.Name
	return ot
}

// TaggedCached: v1marshaler with a tagged custom marshaler and UnmarshalerUsesRegisteredTypes, big cache, depth d.
// (Its keys are written in the marshaler's own tagged form: only monitors that do not decode stored keys with
// the plain codec run it - C01, C02, C05, C08, C13.)
func TaggedCached(d, nvals int) *world.Config {
	c := world.UintCfg(2, urange(1, 4), nvals, ref.FormatMarshaler, "big")
	c.Tagged = true
	c.Name = "tagged/" + c.Name
	return depth(c, d)
}

// Seeded16: uint keys at the default branch factor 16, 20 of them inserted and persisted (height 1).
func Seeded16(format string, d int) *world.Config {
	keys := urange(1, 18)
	keys = append(keys, uint(32), uint(48), uint(256))
	c := world.UintCfg(16, keys, 1, format, "none")
	for k := 0; k < 20; k++ {
		c.Seed = append(c.Seed, world.Op{Kind: world.OpIns, K: k, V: 0})
	}
	c.Seed = append(c.Seed, world.Op{Kind: world.OpReload})
	c.MaxDepth = d
	c.Name = fmt.Sprintf("seeded-bf16/%s/depth%d", c.Name, d)
	return c
}

var bothFormats = []string{ref.FormatBinary, ref.FormatMarshaler}

func runSingle(run *report.Run, check string, cfgs []*world.Config, mon func(*world.Config) explore.Monitor, ops func(*world.Config) []world.Op) {
	blown := 0
	for _, cfg := range cfgs {
		if f := os.Getenv("VERIF_ONLY"); f != "" && !strings.Contains(cfg.Name, f) {
			continue
		}
		e := &explore.Explorer{Cfg: cfg, Ops: ops(cfg), Mon: mon(cfg), Reduced: !cfg.Exact, MaxDepth: cfg.MaxDepth}
		if !world.HookAvailable {
			// black-box fallback: no merging possible, bounded-depth tree search
			e.MaxDepth = 3
			e.MaxStates = 20000
		} else if run.Thorough() {
			e.MaxStates = 600000
		} else {
			e.MaxStates = 80000
		}
		runExplorer(run, check, e)
		if stopEarly(run, e, &blown) {
			break
		}
		if run.Thorough() && len(run.Parts) > 40 {
			// keep the evidence file readable: fold the per-configuration list
			run.Extra["parts_folded"] = true
		}
	}
}

// stopEarly: a closure search (no depth bound) that runs into its state or depth cap *and* has violations to
// report means the code under test no longer has the small closed state space these universes have on a
// correct tree (a counter that drifts, sizes that no longer match contents): every further configuration would
// run into its cap as well, for minutes each. After two such configurations the rest is skipped - the run
// reports the violations it has and says so. Never taken without violations.
func stopEarly(run *report.Run, e *explore.Explorer, blown *int) bool {
	if e.MaxDepth == 0 && !e.Exhaustive && len(e.Findings) > 0 {
		*blown++
	}
	if *blown >= 2 {
		run.Exhaustive = false
		run.Extra["remaining_configurations_skipped"] = "two closure searches ran into their caps with violations to report: the state space no longer closes under the code under test"
		return true
	}
	return false
}

func stdOps(cfg *world.Config) []world.Op {
	if cfg.TwoSlots {
		return c02Ops(cfg, 2, true)
	}
	return withKeptRoot(cfg, SingleOps(cfg, true))
}

// withKeptRoot: for depth-bounded cache configurations (retained roots multiply the state space, so
// not for closures) keep a root, let the cache lose its entries, load the kept root again through
// the cold or warm cache and go on from that older version.
func withKeptRoot(cfg *world.Config, ops []world.Op) []world.Op {
	if cfg.Cache != "none" && cfg.Cache != "" && !cfg.InMemory && cfg.MaxDepth > 0 {
		ops = append(ops, world.Op{Kind: world.OpKeep, A: 0, B: 0}, world.Op{Kind: world.OpFlushCache}, world.Op{Kind: world.OpLoad, A: 0, B: 0})
	}
	return ops
}

func opsWithJSON(cfg *world.Config) []world.Op {
	if cfg.TwoSlots {
		return c02Ops(cfg, 2, true)
	}
	return withKeptRoot(cfg, SingleOps(cfg, true, world.Op{Kind: world.OpReloadJSON}))
}

const ruleSingle = "explicit-state BFS to closure over {insert,delete} x keys x values, MakeRoot, MakeRoot+LoadMast on one tree (plus cached reads when a cache is attached); the property's monitor runs on every transition of the real implementation"

func C04(run *report.Run) {
	runSingle(run, "C04", StructConfigs(run.Thorough(), []string{"none", "big"}, bothFormats), func(*world.Config) explore.Monitor { return &c04Mon{} }, stdOps)
	c04FaultHistories(run)
	fanOut(run, "C04", multiTreePlans(run.Thorough()), func(*world.Config) explore.Monitor { return &c04Mon{} })
	run.Rule = ruleSingle + "; oracle: Root == root of the independently built canonical tree of the entries the tree holds"
}

func C09(run *report.Run) {
	runSingle(run, "C09", StructConfigs(run.Thorough(), []string{"none", "big"}, bothFormats), func(*world.Config) explore.Monitor { return &c09Mon{} }, stdOps)
	c09FaultHistories(run)
	fanOut(run, "C09", multiTreePlans(run.Thorough()), func(*world.Config) explore.Monitor { return &c09Mon{} })
	run.Rule = ruleSingle + "; oracle: every persisted version, decoded by the reference codec, satisfies the shape invariants relative to the recorded height"
}

func c08Configs(thorough bool) []*world.Config {
	cs := StructConfigs(thorough, []string{"none", "big"}, bothFormats)
	cs = append(cs, TaggedCached(6, 2))
	// over-tall trees (an empty root that records height 2; only layer-0 and layer-1 keys): top nodes that hold no
	// entry, only a child
	for _, f := range bothFormats {
		ot := world.UintCfg(2, ulist(1, 2, 3, 5, 6), 1, f, "none")
		ot.StartHeight = 2
		ot.Name = "starts-at-height-2/" + ot.Name
		cs = append(cs, ot)
	}
	nl := world.UintCfg(2, urange(1, 5), 1, ref.FormatMarshaler, "none")
	nl.MarshalNL = true
	nl.Name = "json.Encoder-marshaler/" + nl.Name
	cs = append(cs, nl)
	// nodes larger than 4 KiB next to small ones, on a store that keeps the slices it is handed
	big := strings.Repeat("0123456789abcdef", 320)
	for _, f := range bothFormats {
		r := world.IntCfg(2, []int{1, 2, 3, 4}, []interface{}{big, "s"}, "", f, "none")
		r.RetainStore = true
		r.Name = "retaining-store/5KiB-values/" + r.Name[len(r.Name)-12:]
		cs = append(cs, r)
	}
	return cs
}

func C08(run *report.Run) {
	var total, distinct int64
	runSingle(run, "C08", c08Configs(run.Thorough()), func(*world.Config) explore.Monitor {
		m := newC08()
		defer func() {}()
		c08all = append(c08all, m)
		return m
	}, stdOps)
	fanOut(run, "C08", multiTreePlans(run.Thorough()), func(*world.Config) explore.Monitor {
		m := newC08()
		c08mu.Lock()
		c08all = append(c08all, m)
		c08mu.Unlock()
		return m
	})
	{
		acc := &pairAcc{}
		c08HandleIndependence(run, acc)
		acc.flush(run)
	}
	for _, m := range c08all {
		total += m.stores
		distinct += int64(len(m.nameBytes))
	}
	run.Extra["store_calls_checked"] = total
	run.Extra["distinct_node_names"] = distinct
	run.Rule = ruleSingle + "; oracle on every Store call: name == base64url(BLAKE2b-256(bytes)) by an independent hash, bytes re-encode canonically by the independent codec, name->bytes and root name->contents single-valued"
}

var c08all []*c08Mon
var c08mu sync.Mutex

func C05(run *report.Run) {
	cfgs := StructConfigs(run.Thorough(), []string{"none", "big"}, bothFormats)
	cfgs = append(cfgs, C05ExtraConfigs(run.Thorough())...)
	runSingle(run, "C05", cfgs, func(*world.Config) explore.Monitor { return &c05Mon{} }, opsWithJSON)
	fanOut(run, "C05", multiTreePlans(run.Thorough()), func(*world.Config) explore.Monitor { return &c05Mon{} })
	{
		acc := &pairAcc{}
		bodyLengthSweep(run, "C05", acc)
		acc.flush(run)
	}
	run.Rule = ruleSingle + " and MakeRoot+JSON(Root)+LoadMast; oracle: the reloaded tree has the same entries (per-key Get), Size, Height, BranchFactor, NodeFormat as the tree that was persisted"
}

// C05ExtraConfigs: value/key types and marshalers beyond the structural family.
func C05ExtraConfigs(thorough bool) []*world.Config {
	B, M := ref.FormatBinary, ref.FormatMarshaler
	var cs []*world.Config
	cs = append(cs, world.IntCfg(2, []int{-2, 0, 1, 2, 4}, []interface{}{[]int{1}, []int{2, 3}}, []int{}, B, "none"))
	cs = append(cs, world.IntCfg(2, []int{1, 2, 3, 4, 8}, []interface{}{world.SVal{Asdf: "a", Q: true}, world.SVal{Asdf: "b"}}, world.SVal{}, M, "none"))
	cs = append(cs, world.IntCfg(2, []int{-2, 0, 1, 2, 4}, []interface{}{[]int{1}, []int{2, 3}}, []int{}, M, "none"))
	cs = append(cs, world.IntCfg(4, []int{1, 2, 3, 5, 8}, []interface{}{world.TVal{Tags: []string{"x"}}, world.TVal{Tags: []string{"y", "z"}, M: map[string]int{"q": 1}}}, world.TVal{}, M, "none"))
	cs = append(cs, depth(world.IntCfg(4, []int{1, 2, 3, 5, 8}, []interface{}{world.TVal{Tags: []string{"x"}}, world.TVal{Tags: []string{"y", "z"}, M: map[string]int{"q": 1}}}, world.TVal{}, B, "big"), 5))
	cs = append(cs, world.BytesCfg(4, []uint8{0, 1, 0, 0, 1}, M, "none"))
	cs = append(cs, world.Int64Cfg(2, []int64{-8, -3, 0, 2, 4, 1 << 40}, M, "none"))
	cs = append(cs, world.Uint64Cfg(2, []uint64{0, 1, 2, 4, 1<<53 + 1, 1 << 63}, B, "none"))
	cs = append(cs, depth(world.Uint64Cfg(2, []uint64{0, 1, 2, 4, 1<<53 + 1, 1 << 63}, M, "big"), 5))
	nv := world.IntCfg(2, []int{1, 2, 3, 4, 8}, []interface{}{nil}, nil, B, "none")
	nv.RegisteredTypes = true
	cs = append(cs, nv)
	// the custom-marshaler decoder with a cache: nodes decoded from the store sit in the cache (kept root, cache
	// emptied, loaded again) and are then written below
	cs = append(cs, TaggedCached(6, 2))
	cs = append(cs, OverTall(M))
	// pointer-typed values, a nil pointer among them, in both formats
	cs = append(cs, world.IntCfg(2, []int{1, 2, 3, 4}, []interface{}{&world.SVal{Asdf: "a", Q: true}, (*world.SVal)(nil)}, &world.SVal{}, M, "none"))
	cs = append(cs, world.IntCfg(4, []int{1, 2, 3, 4, 8}, []interface{}{(*world.TVal)(nil), &world.TVal{Tags: []string{"y", "z"}}}, &world.TVal{}, B, "none"))
	// bodies longer than 127 bytes (two-byte length prefixes) and a node with more than 127 entries
	long := strings.Repeat("0123456789", 30)
	cs = append(cs, world.IntCfg(2, []int{1, 2, 3, 4}, []interface{}{long, "s"}, "", B, "none"))
	// bodies of exactly 127, 128 and 129 bytes (quoted strings of 125, 126, 127 characters): the boundary of the one-byte length prefix
	cs = append(cs, world.IntCfg(2, []int{1, 2, 3}, []interface{}{strings.Repeat("x", 125), strings.Repeat("y", 126), strings.Repeat("z", 127)}, "", B, "none"))
	cs = append(cs, world.IntCfg(4, []int{1, 2, 4, 8}, []interface{}{long, ""}, "", M, "none"))
	// a marshaler whose output can be empty: string values written raw, the empty string among them
	raw := world.IntCfg(2, []int{1, 2, 3, 4}, []interface{}{"", "a"}, "", B, "none")
	raw.RawStrings = true
	raw.Name = "raw-string-values/" + raw.Name
	cs = append(cs, raw)
	cs = append(cs, seededFull(world.UintCfg(256, urange(1, 130), 1, B, "none"), 1))
	tg := world.UintCfg(2, urange(1, 5), 2, M, "none")
	tg.Tagged = true
	tg.Name = "tagged/" + tg.Name
	cs = append(cs, tg)
	tl := world.LKeyCfg(2, []uint8{0, 1, 0, 2, 0}, 2, M, "big")
	tl.Tagged = true
	tl.MaxDepth = 5
	tl.Name = "tagged/" + tl.Name + "/depth5"
	cs = append(cs, tl)
	return cs
}

func C13(run *report.Run) {
	runSingle(run, "C13", C13Configs(run.Thorough()), func(*world.Config) explore.Monitor { return &c13Mon{} }, stdOps)
	plans := multiTreePlans(run.Thorough())
	// captures taken after a MakeRoot that failed half-way and was retried, with a cache
	plans = append(plans, c02Plan{world.WithFlushFaults(world.UintCfg(2, urange(1, 4), 1, ref.FormatBinary, "big")), c02FailedFlushCaptures, 2, true, 0})
	fanOut(run, "C13", plans, func(*world.Config) explore.Monitor { return &c13Mon{} })
	run.Rule = ruleSingle + "; the state key additionally carries the base version and the set of keys modified since; oracle on every MakeRoot: stored names are reachable from the new root, nothing stored and same root when nothing was modified, no node of the base version rewritten unless a modified key lies in its range, <= (2h+2) writes per modified key (height unchanged); in every state IsDirty()==false implies contents == base version"
}

func C13Configs(thorough bool) []*world.Config {
	var cfgs []*world.Config
	B, M := ref.FormatBinary, ref.FormatMarshaler
	cfgs = append(cfgs, world.UintCfg(2, urange(1, 5), 1, B, "none"))
	cfgs = append(cfgs, world.UintCfg(2, urange(1, 4), 2, M, "none"))
	cfgs = append(cfgs, world.UintCfg(3, ulist(1, 2, 3, 4, 6, 9), 1, B, "none"))
	// slice values: re-inserting an equal value must be recognised as "nothing modified"
	cfgs = append(cfgs, world.IntCfg(2, []int{1, 2, 3, 4}, []interface{}{[]int{1}, []int{2, 3}}, []int{}, M, "none"))
	cfgs = append(cfgs, world.IntCfg(2, []int{1, 2, 4}, []interface{}{[]byte(nil), []byte{}}, []byte{}, B, "none"))
	// the registered-types decoder (custom marshaler) has its own way of marking decoded nodes clean
	tgc := world.UintCfg(2, urange(1, 4), 2, M, "none")
	tgc.Tagged = true
	tgc.Name = "tagged/" + tgc.Name
	cfgs = append(cfgs, tgc)
	cfgs = append(cfgs, TaggedCached(6, 2))
	// two trees of one persisted version over one warm cache: what one of them does must not make the other
	// write (or look modified)
	cfgs = append(cfgs, SharedCacheSeeded(B, 4), SharedCacheSeededSplit(M, 4))
	cfgs = append(cfgs, world.WithTwoSlots(world.UintCfg(2, ulist(1, 2, 3, 4), 1, B, "none"), 5))
	cfgs = append(cfgs, world.WithTwoSlots(world.UintCfg(2, ulist(1, 2, 4), 1, M, "big"), 5))
	cfgs = append(cfgs, world.WithFlushFaults(world.UintCfg(2, urange(1, 4), 1, B, "none")))
	// two trees and failing flushes together: what a failed MakeRoot of one tree leaves behind must not be acted on by its clone
	cfgs = append(cfgs, world.WithTwoSlots(world.WithFlushFaults(world.UintCfg(2, ulist(1, 2, 4), 1, B, "none")), 5))
	cfgs = append(cfgs, world.WithFlushFaults(depth(world.UintCfg(2, urange(1, 4), 1, M, "big"), 6)))
	cfgs = append(cfgs, world.UintCfg(2, ulist(1, 2, 4), 1, B, "big"))
	cfgs = append(cfgs, depth(world.UintCfg(2, urange(1, 5), 1, M, "big"), 7))
	for _, l := range lkeyQuick[:4] {
		cfgs = append(cfgs, world.LKeyCfg(2, l[:4], 1, B, "none"))
	}
	if thorough {
		cfgs = append(cfgs, world.UintCfg(2, urange(0, 8), 1, B, "none"))
		cfgs = append(cfgs, world.UintCfg(2, urange(1, 5), 2, B, "none"))
		cfgs = append(cfgs, world.UintCfg(4, ulist(1, 2, 3, 4, 5, 8, 16), 1, M, "none"))
		for _, l := range allLayerAssignments(4, 3) {
			cfgs = append(cfgs, world.LKeyCfg(2, l, 1, B, "none"))
		}
		cfgs = append(cfgs, world.StringCfg(2, []uint8{0, 1, 0, 2, 0}, B, "none"))
	}
	return cfgs
}

func C16(run *report.Run) {
	runSingle(run, "C16", C16Configs(run.Thorough()), func(*world.Config) explore.Monitor { return &c16Mon{} }, stdOps)
	{
		acc := &pairAcc{}
		bigC16(run, acc)
		acc.flush(run)
	}
	{
		// "no operation other than full iteration, diff of unrelated trees, or a height change reads a number
		// of nodes proportional to the tree": diffs of related trees, with the judge of C15 (2*D+2 distinct reads)
		acc := &pairAcc{relabel: "C16"}
		if run.Thorough() {
			tallC15(run, acc, 4200, 101)
		} else {
			tallC15(run, acc, 1100, 53)
		}
		heightC15(run, acc, 2, 8)
		ruler := []uint8{0, 1, 0, 2, 0, 1, 0, 3, 0, 1, 0, 2, 0, 1, 0}
		wideC15With(run, acc, 1, 2, ruler, 5)
		wideC15With(run, acc, 3, 2, ruler, 5)
		acc.flush(run)
	}
	run.Rule = ruleSingle + " on a cache-less recording store; oracle: Persist.Load calls per API call: LoadMast<=1, Clone<=1, Get<=height+1 (every key and absent probe, in every state), Insert/Delete<=2(height+1) when the height did not change"
}

func C16Configs(thorough bool) []*world.Config {
	var cfgs []*world.Config
	B, M := ref.FormatBinary, ref.FormatMarshaler
	cfgs = append(cfgs, world.UintCfg(2, urange(1, 5), 1, B, "none"))
	cfgs = append(cfgs, world.UintCfg(2, urange(0, 8), 1, B, "none"))
	cfgs = append(cfgs, world.UintCfg(3, ulist(1, 2, 3, 4, 5, 6, 9), 1, M, "none"))
	cfgs = append(cfgs, world.UintCfg(4, ulist(1, 2, 3, 4, 5, 8, 16), 1, B, "none"))
	for _, l := range lkeyQuick {
		cfgs = append(cfgs, world.LKeyCfg(2, l, 1, B, "none"))
	}
	if thorough {
		cfgs = append(cfgs, world.UintCfg(2, urange(1, 7), 2, B, "none"))
		cfgs = append(cfgs, world.UintCfg(3, ulist(1, 2, 3, 4, 5, 6, 7, 8, 9, 12, 18), 1, B, "none"))
		for _, l := range allLayerAssignments(5, 3) {
			cfgs = append(cfgs, world.LKeyCfg(2, l, 1, B, "none"))
		}
	}
	return cfgs
}
