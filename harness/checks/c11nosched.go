//go:build !sched

package checks

import (
	"fmt"

	"verifharness/report"
)

// C11 without engine S (instrumentation of the current sources failed): only the
// two sequential orders of every scenario are executed, plus the race pass. The
// evidence says so.
func C11(run *report.Run) {
	var n int64
	for _, sc := range c11Scenarios(run.Thorough()) {
		refs := make([]string, len(sc.Seqs))
		for i := range sc.Seqs {
			r, err := c11Alone(sc, i)
			if err != nil {
				run.HarnessError("%v", err)
				return
			}
			refs[i] = r
		}
		for _, order := range [][]int{{0, 1}, {1, 0}} {
			if len(sc.Seqs) != 2 {
				continue
			}
			cw, err := c11Setup(sc)
			if err != nil {
				run.HarnessError("%v", err)
				return
			}
			n++
			for _, i := range order {
				if got := runThread(cw.w, cw.trees[i], cw.root, sc.Seqs[i]); got != refs[i] {
					run.Add(report.Violation{Sig: "C11|thread-observes-differently-than-alone|sequential-order", What: "a tree observed something different after another tree's operations than alone", Detail: fmt.Sprintf("alone %s; after the other %s", refs[i], got), Check: "C11", History: []string{fmt.Sprintf("base %v capture %s threads %v order %v", sc.Base, sc.Capture, sc.Seqs, order)}})
				}
			}
		}
	}
	c11RacePass(run)
	c11Synctest(run)
	run.States = n
	run.Transitions = n
	run.Exhaustive = false
	run.Extra["sync_level"] = false
	run.Extra["sync_level_note"] = "engine S was not available for this run (instrumentation of the current sources failed); only the two sequential orders of each scenario and the race pass were executed"
	run.AddSample("two sequential orders per scenario (fallback)")
}
