package checks

import (
	"verifharness/report"
)

// C03 driver: part A (fault sequences, engine F) + part B (schedules, engine S).
func C03(run *report.Run) {
	acc := &pairAcc{}
	st := &c03Stats{}
	c03StoreSuccession(run, acc)
	c03Sequential(run, acc, st)
	c03Schedules(run, acc)
	c03Synctest(run)
	c03Histories(run)
	c03FileBackend(run, acc)
	acc.flush(run)
	run.Evals = st.evals + st.retries
	run.Distinct = st.failing
	run.Extra["executions_with_failing_writes"] = st.failing
	run.Extra["retries"] = st.retries
	run.AddSample(map[string]interface{}{"part_A": "every pre-state of the single-tree closure x every non-empty subset of its Store calls failing (by node name) x retry clean / retry with one of them failing again / third attempt",
		"oracle": "error reported iff a write failed; tree answers Get/Size as before and accepts an insert; a later success implies every reachable node is in the store under its own name; same root as the fault-free run"})
	if run.Rule == "" {
		run.Rule = "engine F over engine W's closure: 0-deviation execution records the set of node names written, then one execution per failing subset and retry choice"
	}
}
