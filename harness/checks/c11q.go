package checks

import (
	"encoding/json"
	"fmt"
	"os"
	"os/exec"
	"path/filepath"
	"strings"

	"verifharness/report"
)

// C11, engine Q: the test binary built with go1.26.8 from /verif/harnessq runs two trees (one store, one
// node cache, a goroutine each) of the UNMODIFIED package inside a testing/synctest bubble. Every Persist
// call of either tree parks; all release orders are enumerated, with and without every Load of the first
// tree failing; each tree must observe what it observes alone. No instrumentation is involved, so this
// part keeps working when a change brings in a construct the instrumenter of engine S refuses (select,
// sync.Map, ...), and it cross-checks engine S otherwise.
func c11Synctest(run *report.Run) {
	bin := filepath.Join(filepath.Dir(os.Args[0]), "q.test")
	if _, err := os.Stat(bin); err != nil {
		run.Extra["synctest_pass"] = "not run: go1.26.8 test binary not built"
		return
	}
	out := filepath.Join(os.TempDir(), fmt.Sprintf("verif-q11-%d.json", os.Getpid()))
	defer os.Remove(out)
	cmd := exec.Command(bin, "-test.run", "TestQ11", "-test.timeout", "20m")
	cmd.Env = append(os.Environ(), "VERIF_Q_OUT="+out)
	txt, err := cmd.CombinedOutput()
	b, rerr := os.ReadFile(out)
	if rerr != nil {
		run.Add(report.Violation{Sig: "C11|synctest|run-did-not-complete", What: "two trees sharing a store and a cache did not complete their operations inside the synctest bubble (panic or blocked goroutines)", Detail: fmt.Sprintf("%v: %s", err, tailStr(string(txt), 1500)), Check: "C11-synctest"})
		return
	}
	var res struct {
		Scenarios  int      `json:"scenarios"`
		Executions int64    `json:"executions"`
		MaxParked  int      `json:"max_parked_at_once"`
		Findings   []string `json:"findings"`
		Sample     []string `json:"sample"`
	}
	json.Unmarshal(b, &res)
	run.Transitions += res.Executions
	run.Validated += res.Executions
	run.Parts = append(run.Parts, map[string]interface{}{"part": "engine Q - unmodified code in a testing/synctest bubble: two trees, every release order of their parked Persist calls, with and without the first tree's loads failing", "scenarios": res.Scenarios, "executions": res.Executions, "longest_release_sequence": res.MaxParked})
	if len(res.Sample) > 0 {
		run.AddSample(map[string]interface{}{"engine_Q": res.Sample})
	}
	for _, f := range res.Findings {
		sig := f
		if i := strings.IndexAny(f, ":|"); i > 0 {
			sig = strings.TrimSpace(f[:i])
		}
		run.Add(report.Violation{Sig: "C11|synctest|" + report.Norm(sig), What: "under a controlled release order of the two trees' store calls (unmodified code): " + sig, Detail: f, Check: "C11-synctest"})
	}
}
