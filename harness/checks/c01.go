package checks

import (
	"fmt"
	"math"
	"os"
	"strings"

	"github.com/jrhy/mast"
	"verifharness/explore"
	"verifharness/ref"
	"verifharness/report"
	"verifharness/world"
)

// c01Mon: map semantics against the sorted-map model.
type c01Mon struct {
	explore.NopMonitor
	cfg *world.Config
}

type c01Pre struct {
	model  map[int]int
	expect string // "ok" | "fail"
}

func (m *c01Mon) Before(w *world.World, op world.Op) interface{} {
	p := c01Pre{expect: "ok"}
	if op.Kind == world.OpPersistFail {
		p.expect = "any" // the environment is made to fail: an error is the expected answer, and it must leave the map alone
	}
	if op.Kind == world.OpDel {
		v, ok := w.Model[op.A][op.K]
		if !ok || v != op.V {
			p.expect = "fail"
		}
	}
	return p
}

func (m *c01Mon) After(w *world.World, op world.Op, res world.Res, pre interface{}) []explore.Finding {
	p := pre.(c01Pre)
	opn := op.Kind
	name := map[world.OpKind]string{world.OpIns: "Insert", world.OpDel: "Delete", world.OpPersist: "MakeRoot", world.OpReload: "MakeRoot+LoadMast",
		world.OpReloadJSON: "MakeRoot+LoadMast", world.OpClone: "Clone", world.OpGet: "Get", world.OpIter: "Iter", world.OpKeep: "MakeRoot", world.OpLoad: "LoadMast", world.OpLoadNoCache: "LoadMast", world.OpCursor: "Cursor", world.OpPersistFail: "failing-MakeRoot", world.OpFlushCache: "cache-emptied", world.OpDrop: "drop"}[opn]
	var out []explore.Finding
	rc := resClass(res)
	if res.Panic != nil {
		return []explore.Finding{{Sig: fmt.Sprintf("C01|%s|%s", name, rc), What: name + " with valid arguments panicked", Detail: fmt.Sprint(res.Panic), Block: true}}
	}
	if p.expect == "ok" && res.Err != nil {
		blk := op.Kind != world.OpIter && op.Kind != world.OpGet
		return []explore.Finding{{Sig: fmt.Sprintf("C01|%s|%s", name, rc), What: name + " with valid arguments returned an error on a healthy store", Detail: res.Err.Error(), Block: blk}}
	}
	if p.expect == "fail" && res.Err == nil {
		out = append(out, explore.Finding{Sig: "C01|Delete|succeeded-on-absent-or-mismatched", What: "Delete of an absent key or with a non-matching value reported success", Block: true})
	}
	// the map after the op must equal the model (also: failed deletes have no effect)
	for i, t := range w.Trees {
		if t == nil {
			continue
		}
		got := w.ReadContents(t)
		want := world.ModelContents(w.Model[i])
		if !got.Equal(want) {
			out = append(out, explore.Finding{Sig: fmt.Sprintf("C01|%s|contents-differ-from-model|%s", name, report.Norm(got.Bad)),
				What:   "after " + name + " the tree's Get/Size disagree with the sorted-map model",
				Detail: fmt.Sprintf("slot %d: got %v want %v", i, got, want), Block: true})
		}
	}
	return out
}

func (m *c01Mon) OnState(w *world.World, hist []world.Op) []explore.Finding {
	var out []explore.Finding
	cfg := w.Cfg
	for slot, t := range w.Trees {
		if t == nil {
			continue
		}
		model := w.Model[slot]
		cls := treeClass(model, hist, slot)
		want := world.ModelContents(model)
		// Get with nil value pointer
		for i := 0; i < cfg.NAll(); i++ {
			var ok bool
			r := guardRes(func() (err error) { ok, err = t.Get(ctx, cfg.Key(i), nil); return })
			_, in := model[i]
			if r.Err != nil || r.Panic != nil || ok != in {
				out = append(out, explore.Finding{Sig: fmt.Sprintf("C01|Get(nil)|%s|%s", cls, resClass(r)), What: "Get(key, nil) disagrees with the model", Detail: fmt.Sprintf("key %v: ok=%v want %v (%v)", cfg.Key(i), ok, in, r)})
				break
			}
		}
		// full iteration
		keys, vals, _, r := iterAll(cfg, t, -1)
		wk := sortedKeys(model)
		bad := r.Err != nil || r.Panic != nil || len(keys) != len(wk)
		if !bad {
			for i := range wk {
				if keys[i] != wk[i] || vals[i] != model[wk[i]] {
					bad = true
				}
			}
		}
		if bad {
			out = append(out, explore.Finding{Sig: fmt.Sprintf("C01|Iter|%s|%s", cls, resClass(r)), What: "full iteration does not yield the model's entries once each in ascending order",
				Detail: fmt.Sprintf("got keys %v vals %v (%v), want keys %v", keys, vals, r, wk)})
		} else {
			// early stop at each position
			for stop := 0; stop < len(wk); stop++ {
				k2, _, calls, r2 := iterAll(cfg, t, stop)
				if r2.Err != nil || r2.Panic != nil || calls != stop+1 || len(k2) != stop+1 {
					out = append(out, explore.Finding{Sig: fmt.Sprintf("C01|Iter-stop|%s|%s", cls, resClass(r2)), What: "Iter stopped with ErrIterDone misbehaves",
						Detail: fmt.Sprintf("stop after %d: calls=%d res=%v", stop+1, calls, r2)})
					break
				}
			}
		}
		// read-only calls never change the map
		got := w.ReadContents(t)
		if !got.Equal(want) {
			out = append(out, explore.Finding{Sig: fmt.Sprintf("C01|readonly-changed-map|%s", cls), What: "read-only calls changed the map", Detail: fmt.Sprintf("got %v want %v", got, want), Block: true})
		}
	}
	return out
}

// C01Configs enumerates the configurations of the C01 check.
func C01Configs(thorough bool) []*world.Config {
	B, M := ref.FormatBinary, ref.FormatMarshaler
	var cs []*world.Config
	add := func(c *world.Config) { cs = append(cs, c) }
	u := func(lo, hi uint) []interface{} {
		var out []interface{}
		for x := lo; x <= hi; x++ {
			out = append(out, x)
		}
		return out
	}
	add(world.UintCfg(2, u(1, 5), 2, B, "none"))
	add(world.UintCfg(2, u(0, 8), 1, B, "none"))
	add(world.UintCfg(2, []interface{}{uint(1), uint(2), uint(4)}, 1, M, "big"))
	add(depth(world.UintCfg(2, u(1, 5), 1, M, "big"), 7))
	add(depth(world.UintCfg(2, u(1, 4), 2, B, "big"), 6))
	add(world.UintCfg(2, u(1, 4), 2, B, "tiny1"))
	add(world.UintCfg(3, []interface{}{uint(1), uint(2), uint(3), uint(4), uint(5), uint(6), uint(9)}, 1, B, "none"))
	add(world.UintCfg(4, []interface{}{uint(1), uint(2), uint(3), uint(4), uint(5), uint(8), uint(16)}, 1, M, "none"))
	for _, ls := range [][]uint8{{0, 1, 0, 2, 0}, {2, 0, 0, 0, 2}, {0, 0, 2, 0, 0}, {3, 0, 1, 0, 3}, {1, 1, 1, 1, 1}, {0, 2, 2, 2, 0}, {0, 0, 0, 0, 3}, {1, 0, 3, 0, 1}} {
		add(world.LKeyCfg(2, ls, 1, B, "none"))
	}
	add(world.IntCfg(2, []int{-4, -2, -1, 0, 1, 2, 4}, []interface{}{"a"}, "", B, "none"))
	add(world.IntCfg(2, []int{-2, 0, 1, 2, 4}, []interface{}{[]int{1}, []int{2, 3}}, []int{}, B, "none"))
	// values and keys with indirection (slices) in both formats: decode targets must not be shared between entries
	add(world.IntCfg(2, []int{-2, 0, 1, 2, 4}, []interface{}{[]int{1}, []int{2, 3}}, []int{}, M, "none"))
	add(world.IntCfg(4, []int{1, 2, 3, 5, 8}, []interface{}{world.TVal{Tags: []string{"x"}}, world.TVal{Tags: []string{"y", "z"}, M: map[string]int{"q": 1}}}, world.TVal{}, M, "none"))
	add(world.BytesCfg(4, []uint8{0, 1, 0, 0, 1}, M, "none"))
	nv := world.IntCfg(2, []int{1, 2, 3, 4, 8}, []interface{}{nil}, nil, B, "none")
	nv.RegisteredTypes = true
	add(nv)
	add(depth(world.IntCfg(2, []int{1, 2, 3, 4, 8}, []interface{}{world.SVal{Asdf: "a", Q: true}, world.SVal{Asdf: "b"}}, world.SVal{}, M, "big"), 6))
	// pointer-typed values (a caller never holds the very pointer that is stored, least of all after a
	// reload) and values whose static type is comparable while their content is not
	add(world.IntCfg(2, []int{1, 2, 3, 4, 8}, []interface{}{&world.SVal{Asdf: "a", Q: true}, &world.SVal{Asdf: "b"}}, &world.SVal{}, B, "none"))
	add(world.IntCfg(4, []int{1, 2, 3, 4, 8}, []interface{}{&world.TVal{Tags: []string{"x"}}, &world.TVal{Tags: []string{"y", "z"}}}, &world.TVal{}, M, "none"))
	// a nil pointer is a value like any other (encoded as null)
	add(world.IntCfg(2, []int{1, 2, 3, 4}, []interface{}{&world.SVal{Asdf: "a", Q: true}, (*world.SVal)(nil)}, &world.SVal{}, M, "none"))
	add(world.IntCfg(4, []int{1, 2, 3, 4, 8}, []interface{}{(*world.TVal)(nil), &world.TVal{Tags: []string{"y", "z"}}}, &world.TVal{}, B, "none"))
	add(world.IntCfg(2, []int{1, 2, 3, 4}, []interface{}{world.IVal{Name: "a", Extra: []interface{}{"x"}}, world.IVal{Name: "a", Extra: map[string]interface{}{"k": "v"}}}, world.IVal{}, M, "none"))
	add(world.IntCfg(2, []int{1, 2, 3, 4}, []interface{}{world.IVal{Name: "a", Extra: []interface{}{"x"}}, world.IVal{Name: "b", Extra: "s"}}, world.IVal{}, B, "none"))
	// values that differ only as nil versus empty: a delete with the other one must fail, an update must take effect
	add(world.IntCfg(2, []int{1, 2, 3, 4}, []interface{}{[]byte(nil), []byte{}, []byte{0}}, []byte{}, B, "none"))
	add(world.IntCfg(2, []int{1, 2, 4}, []interface{}{map[string]int(nil), map[string]int{}}, map[string]int{}, M, "none"))
	add(world.Int64Cfg(2, []int64{-8, -3, 0, 2, 4, 1 << 40}, B, "none"))
	add(world.Uint64Cfg(2, []uint64{0, 1, 2, 4, 1<<53 + 1, 1 << 63}, B, "none"))
	add(world.Int64Cfg(2, []int64{math.MinInt64 + 3, -4, 0, 6, math.MaxInt64 - 3}, M, "none"))
	add(world.IntCfg(4, []int{math.MinInt64 + 1, -8, 0, 12, math.MaxInt64}, []interface{}{"a"}, "", B, "none"))
	add(world.Wide(world.UintCfg(2, u(1, 5), 1, B, "none")))
	add(world.Int32Cfg(2, []int32{-2, 9, 10, 100, 4, 16}, B, "none"))
	add(world.Uint8Cfg(2, []uint8{2, 10, 100, 9, 16, 200}, M, "none"))
	add(world.StringCfg(2, []uint8{0, 1, 0, 2, 0}, B, "none"))
	add(world.BytesCfg(2, []uint8{0, 1, 0, 2, 0}, B, "none"))
	add(world.StructCfg(2, []uint8{0, 1, 0, 2, 0}, M, "none"))
	// exact state key: the same node contents reached with and without spare capacity in its slices are
	// different states (an append that writes into a shared backing array only shows in the former)
	add(world.ExactKey(world.UintCfg(2, u(1, 5), 1, B, "none")))
	add(world.ExactKey(depth(world.UintCfg(2, u(1, 5), 1, M, "big"), 7)))
	add(world.ExactKey(depth(world.IntCfg(4, []int{1, 4, 5, 8, 9, 12}, []interface{}{"a"}, "", B, "big"), 6)))
	add(world.ExactKey(depth(world.UintCfg(3, []interface{}{uint(1), uint(2), uint(3), uint(4), uint(6), uint(9)}, 1, B, "big"), 6)))
	add(ChainSeeded(M, 3))
	add(Seeded16(B, 2))
	add(LateInsertSeeded(B, 6))
	// several tree values of one version: clones and loads of a kept root through the shared cache
	add(world.WithTwoSlots(world.UintCfg(2, u(1, 4), 1, B, "none"), 5))
	add(world.WithTwoSlots(world.UintCfg(2, []interface{}{uint(1), uint(2), uint(4)}, 2, M, "big"), 5))
	add(TaggedCached(6, 2))
	if thorough {
		add(SharedCacheSeeded(B, 5))
		add(SharedCacheSeededSplit(M, 5))
	} else {
		add(SharedCacheSeeded(B, 4))
		add(SharedCacheSeededSplit(M, 4))
	}
	im := world.IntCfg(16, []int{1, 2, 3, 16, 32}, []interface{}{"a", "b"}, "", B, "none")
	im.InMemory = true
	im.Name = "inmemory/" + im.Name
	add(im)
	im2 := world.IntCfg(16, []int{1, 2, 3, 16, 32}, []interface{}{world.IVal{Name: "a", Extra: []int{1}}, &world.SVal{Asdf: "p"}}, nil, B, "none")
	im2.InMemory = true
	im2.Name = "inmemory/mixed-values/" + im2.Name
	add(im2)
	if thorough {
		add(world.UintCfg(2, u(1, 7), 2, B, "none"))
		add(world.UintCfg(2, u(0, 8), 2, B, "none"))
		add(depth(world.UintCfg(2, u(1, 6), 2, M, "big"), 7))
		add(depth(world.UintCfg(2, u(1, 5), 2, B, "tiny2"), 9))
		add(world.UintCfg(3, []interface{}{uint(1), uint(2), uint(3), uint(4), uint(5), uint(6), uint(7), uint(8), uint(9), uint(12), uint(18)}, 1, B, "none"))
		for a := 0; a < 1024; a++ {
			ls := []uint8{uint8(a & 3), uint8(a >> 2 & 3), uint8(a >> 4 & 3), uint8(a >> 6 & 3), uint8(a >> 8 & 3)}
			add(world.LKeyCfg(2, ls, 1, B, "none"))
		}
		add(depth(world.StringCfg(3, []uint8{0, 1, 0, 2, 0, 1}, M, "big"), 7))
		add(world.BytesCfg(4, []uint8{0, 1, 0, 1, 0, 2}, M, "none"))
		add(depth(world.StructCfg(2, []uint8{0, 1, 0, 2, 0, 1}, B, "big"), 7))
	}
	return cs
}

func depth(c *world.Config, d int) *world.Config {
	c.MaxDepth = d
	c.Name += fmt.Sprintf("/depth%d", d)
	return c
}

// C01 runs the check.
func C01(run *report.Run) {
	blown := 0
	for _, cfg := range C01Configs(run.Thorough()) {
		e := &explore.Explorer{Cfg: cfg, Ops: withKeptRoot(cfg, SingleOps(cfg, true)), Mon: &c01Mon{cfg: cfg}, Reduced: true, MaxDepth: cfg.MaxDepth}
		if cfg.Exact || os.Getenv("VERIF_EXACT") != "" {
			e.Reduced = false
		}
		if cfg.TwoSlots {
			e.Ops = c02Ops(cfg, 2, true)
		}
		if f := os.Getenv("VERIF_ONLY"); f != "" && !strings.Contains(cfg.Name, f) {
			continue
		}
		if !world.HookAvailable {
			e.MaxDepth = 3
			e.MaxStates = 20000
		} else if run.Thorough() {
			e.MaxStates = 400000
		} else {
			e.MaxStates = 300000
		}
		runExplorer(run, "C01", e)
		if stopEarly(run, e, &blown) {
			break
		}
	}
	if os.Getenv("VERIF_ONLY") == "" {
		acc := &pairAcc{}
		bigC01(run, acc)
		bodyLengthSweep(run, "C01", acc)
		acc.flush(run)
		swallowedFaultPass(run, "C01", "Insert", "Delete", "Get", "Iter")
		fanOut(run, "C01", multiTreePlans(run.Thorough()), func(c *world.Config) explore.Monitor { return &c01Mon{cfg: c} })
	}
	run.Rule = "explicit-state BFS to closure over {insert,delete} x keys x values, MakeRoot, MakeRoot+LoadMast (and Get/Iter when a cache is attached); every transition executes the real implementation; states merged on the exact heap dump"
	run.Assumptions = append(run.Assumptions, "finite key/value universes per configuration", "state merging is sound because equal dumps are isomorphic heaps and mast is deterministic (DESIGN 3.3)")
	_ = mast.ErrIterDone
}
