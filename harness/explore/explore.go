// Package explore is engine W: explicit-state breadth-first search over
// operation histories of a world, with the real implementation as the transition
// function. Successor = replay of the shortest history on a fresh world + one
// op. States are merged on the exact canonical key of the heap.
package explore

import (
	"crypto/sha256"
	"fmt"
	"os"
	"runtime"
	"sync"
	"sync/atomic"

	"verifharness/world"
)

// Finding is something a monitor wants reported.
type Finding struct {
	Sig    string // signature: groups the many histories of one defect
	What   string // one-line description in the property's terms
	Detail string // free text (expected vs observed)
	Block  bool   // the reached state is not trustworthy: do not expand it
}

// Monitor plugs a property's oracle into the search.
type Monitor interface {
	// Before is called on the pre-state of every explored transition.
	Before(w *world.World, op world.Op) interface{}
	// After is called after the op; it may read the world but must leave it usable.
	After(w *world.World, op world.Op, res world.Res, pre interface{}) []Finding
	// OnState is called once per distinct state on a throw-away world in that state.
	OnState(w *world.World, hist []world.Op) []Finding
	// ExtraKey lets a monitor add its own bookkeeping to the state key.
	ExtraKey(w *world.World) string
}

// NopMonitor can be embedded.
type NopMonitor struct{}

func (NopMonitor) Before(*world.World, world.Op) interface{}                      { return nil }
func (NopMonitor) After(*world.World, world.Op, world.Res, interface{}) []Finding { return nil }
func (NopMonitor) OnState(*world.World, []world.Op) []Finding                     { return nil }
func (NopMonitor) ExtraKey(*world.World) string                                   { return "" }

// FindingRec aggregates all occurrences of one signature.
type FindingRec struct {
	Finding
	Config string
	Hist   []world.Op
	Count  int64
}

type hkey [16]byte

func hashKey(s string) hkey {
	h := sha256.Sum256([]byte(s))
	var k hkey
	copy(k[:], h[:16])
	return k
}

// Explorer is one search.
type Explorer struct {
	Cfg       *world.Config
	Ops       []world.Op
	Mon       Monitor
	MaxDepth  int   // 0 = until closure
	MaxStates int64 // 0 = unlimited
	Workers   int
	Reduced   bool
	KeepHists bool // keep the shortest history of every state (for pair checks)

	States      int64
	Transitions int64
	NoOps       int64 // transitions that led back to the same state
	Depth       int
	Exhaustive  bool // closure reached (frontier emptied)
	BoundDone   bool // the declared depth bound was completed without hitting the state cap
	DepthCapHit bool // a search without a depth bound of its own was stopped at ClosureDepthCap levels
	Blocked     int64
	Hists       [][]world.Op
	SampleHists [][]world.Op // a few of the deepest shortest-histories found
	Findings    map[string]*FindingRec
	HarnessErr  error

	mu sync.Mutex
}

func (e *Explorer) addFinding(f Finding, hist []world.Op) {
	e.mu.Lock()
	defer e.mu.Unlock()
	if e.Findings == nil {
		e.Findings = map[string]*FindingRec{}
	}
	r := e.Findings[f.Sig]
	if r == nil {
		e.Findings[f.Sig] = &FindingRec{Finding: f, Config: e.Cfg.Name, Hist: append([]world.Op{}, hist...), Count: 1}
		return
	}
	r.Count++
	if len(hist) < len(r.Hist) {
		r.Hist = append([]world.Op{}, hist...)
		r.Finding = f
	}
}

// Replay builds a fresh world and applies hist; any failure is a harness error
// (every op of a stored history succeeded when it was first explored).
func Replay(cfg *world.Config, hist []world.Op, reduced bool) (*world.World, error) {
	w, err := world.New(cfg)
	if err != nil {
		return nil, err
	}
	w.Reduced = reduced
	for i, op := range hist {
		if !w.Enabled(op) {
			return nil, fmt.Errorf("replay divergence: op %d %v not enabled", i, op)
		}
		r := w.Apply(op)
		if r.Panic != nil {
			return nil, fmt.Errorf("replay divergence: op %d %v panicked: %v", i, op, r.Panic)
		}
	}
	return w, nil
}

type trans struct {
	op       world.Op
	key      hkey
	blocked  bool
	findings []Finding
}

// ClosureDepthCap bounds searches that have no depth bound of their own (see Run).
const ClosureDepthCap = 36

// Run performs the search.
func (e *Explorer) Run() {
	if e.Workers <= 0 {
		e.Workers = runtime.NumCPU()
	}
	seen := map[hkey]struct{}{}
	w0, err := Replay(e.Cfg, nil, e.Reduced)
	if err != nil {
		e.HarnessErr = err
		return
	}
	k0 := hashKey(w0.StateKey(e.Mon.ExtraKey(w0)))
	seen[k0] = struct{}{}
	frontier := [][]world.Op{{}}
	e.States = 1
	if e.KeepHists {
		e.Hists = append(e.Hists, []world.Op{})
	}
	for _, f := range e.Mon.OnState(w0, nil) {
		e.addFinding(f, nil)
	}
	e.Exhaustive = true
	for depth := 0; len(frontier) > 0; depth++ {
		if e.MaxDepth > 0 && depth >= e.MaxDepth {
			e.Exhaustive = false
			e.BoundDone = true
			break
		}
		if e.MaxDepth == 0 && depth >= ClosureDepthCap {
			// A closure of these finite universes ends after a few dozen levels (deepest on the unchanged tree:
			// 22). A state space that keeps growing level after level (a counter that drifts, say) would keep the
			// search going for hours on a narrow frontier without ever reaching the state cap: stop, report what
			// was found, and say that the closure was not reached.
			e.Exhaustive = false
			e.DepthCapHit = true
			break
		}
		e.Depth = depth + 1
		if os.Getenv("VERIF_TRACE") != "" {
			fmt.Fprintf(os.Stderr, "trace %s depth=%d frontier=%d states=%d\n", e.Cfg.Name, depth, len(frontier), e.States)
		}
		results := make([][]trans, len(frontier))
		var next int64 = -1
		var wg sync.WaitGroup
		var herr atomic.Value
		for wk := 0; wk < e.Workers; wk++ {
			wg.Add(1)
			go func() {
				defer wg.Done()
				for {
					i := int(atomic.AddInt64(&next, 1))
					if i >= len(frontier) {
						return
					}
					res, err := e.expand(frontier[i])
					if err != nil {
						herr.Store(err)
						return
					}
					results[i] = res
				}
			}()
		}
		wg.Wait()
		if v := herr.Load(); v != nil {
			e.HarnessErr = v.(error)
			return
		}
		// deterministic merge in frontier order
		var newStates [][]world.Op
		for i, rs := range results {
			for _, t := range rs {
				e.Transitions++
				hist := append(append([]world.Op{}, frontier[i]...), t.op)
				for _, f := range t.findings {
					e.addFinding(f, hist)
				}
				if t.blocked {
					e.Blocked++
					continue
				}
				if _, ok := seen[t.key]; ok {
					continue
				}
				seen[t.key] = struct{}{}
				newStates = append(newStates, hist)
			}
		}
		// phase 2: observers once per new state
		blocked := make([]bool, len(newStates))
		next = -1
		for wk := 0; wk < e.Workers; wk++ {
			wg.Add(1)
			go func() {
				defer wg.Done()
				for {
					i := int(atomic.AddInt64(&next, 1))
					if i >= len(newStates) {
						return
					}
					w, err := Replay(e.Cfg, newStates[i], e.Reduced)
					if err != nil {
						herr.Store(err)
						return
					}
					for _, f := range e.Mon.OnState(w, newStates[i]) {
						e.addFinding(f, newStates[i])
						if f.Block {
							blocked[i] = true
						}
					}
				}
			}()
		}
		wg.Wait()
		if v := herr.Load(); v != nil {
			e.HarnessErr = v.(error)
			return
		}
		if len(newStates) > 0 {
			e.SampleHists = [][]world.Op{newStates[0], newStates[len(newStates)/2], newStates[len(newStates)-1]}
		}
		frontier = frontier[:0]
		for i, h := range newStates {
			e.States++
			if e.KeepHists {
				e.Hists = append(e.Hists, h)
			}
			if blocked[i] {
				e.Blocked++
				continue
			}
			frontier = append(frontier, h)
		}
		if e.MaxStates > 0 && e.States >= e.MaxStates && len(frontier) > 0 {
			e.Exhaustive = false
			break
		}
	}
}

// expand explores every op from the state reached by hist.
func (e *Explorer) expand(hist []world.Op) ([]trans, error) {
	var out []trans
	var w *world.World
	var parent hkey
	for _, op := range e.Ops {
		if w == nil {
			var err error
			w, err = Replay(e.Cfg, hist, e.Reduced)
			if err != nil {
				return nil, err
			}
			parent = hashKey(w.StateKey(e.Mon.ExtraKey(w)))
		}
		if !w.Enabled(op) {
			continue
		}
		pre := e.Mon.Before(w, op)
		res := w.Apply(op)
		fs := e.Mon.After(w, op, res, pre)
		t := trans{op: op, findings: fs}
		for _, f := range fs {
			if f.Block {
				t.blocked = true
			}
		}
		if t.blocked {
			w = nil
			out = append(out, t)
			continue
		}
		t.key = hashKey(w.StateKey(e.Mon.ExtraKey(w)))
		out = append(out, t)
		if t.key == parent {
			atomic.AddInt64(&e.NoOps, 1)
			continue // still (isomorphic to) the parent state: reuse the world
		}
		w = nil
	}
	return out, nil
}
