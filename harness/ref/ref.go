// Package ref is the reference side: everything here is written independently of
// mast (it imports nothing from it) and is deliberately boring: a sorted map, the
// layer functions re-derived from their definition, the canonical Merkle search
// tree builder, an independent codec for both node formats, an independent hash,
// and a walker/shape checker over stored bytes.
package ref

import (
	"bytes"
	"encoding/base64"
	"encoding/binary"
	"encoding/json"
	"errors"
	"fmt"
	"hash/crc64"
	"sort"

	"golang.org/x/crypto/blake2b"
)

// ---------- hash ----------

// Name is the node name of bytes: unpadded URL-safe base64 of BLAKE2b-256.
func Name(b []byte) string {
	h := blake2b.Sum256(b)
	return base64.RawURLEncoding.EncodeToString(h[:])
}

// ---------- layers ----------

var ecma = crc64.MakeTable(crc64.ECMA)

// UintLayer: number of trailing zero digits of v in base bf (0 for v==0).
func UintLayer(v uint64, bf uint) uint8 {
	if v == 0 || bf < 2 {
		return 0
	}
	var l uint8
	for v%uint64(bf) == 0 {
		v /= uint64(bf)
		l++
	}
	return l
}

func IntLayer(v int64, bf uint) uint8 {
	if v == 0 || bf < 2 {
		return 0
	}
	var l uint8
	b := int64(bf)
	for v%b == 0 {
		v /= b
		l++
	}
	return l
}

func BlobLayer(b []byte, bf uint) uint8 { return UintLayer(crc64.Checksum(b, ecma), bf) }

// ---------- key specs ----------

// KeySpec is the reference view of one key type.
type KeySpec struct {
	Name  string
	Cmp   func(a, b interface{}) int
	Layer func(k interface{}, bf uint) uint8
	Dec   func(raw []byte) (interface{}, error) // decode one marshaled key
}

// Entry is one key/value pair; V is compared by its JSON encoding.
type Entry struct {
	K, V interface{}
}

func SortEntries(ks *KeySpec, es []Entry) {
	sort.SliceStable(es, func(i, j int) bool { return ks.Cmp(es[i].K, es[j].K) < 0 })
}

// ---------- canonical tree ----------

// CNode is a node of the canonical tree.
type CNode struct {
	Level    int
	Keys     []interface{}
	Vals     []interface{}
	Children []*CNode // len(Keys)+1, nil = no child
	Name     string   // filled by Encode
	Bytes    []byte
}

// CanonHeight is min(max layer, floor(log_bf(n-1))), 0 below two entries.
func CanonHeight(ks *KeySpec, es []Entry, bf uint) int {
	n := len(es)
	if n < 2 {
		return 0
	}
	maxLayer := 0
	for _, e := range es {
		if l := int(ks.Layer(e.K, bf)); l > maxLayer {
			maxLayer = l
		}
	}
	lg := 0
	p := uint64(bf)
	for p <= uint64(n-1) {
		lg++
		p *= uint64(bf)
	}
	if maxLayer < lg {
		return maxLayer
	}
	return lg
}

// BuildCanon builds the unique Merkle search tree of sorted entries at height H.
// Returns nil for no entries.
func BuildCanon(ks *KeySpec, es []Entry, bf uint, H int) *CNode {
	if len(es) == 0 {
		return nil
	}
	return build(ks, es, bf, H)
}

func build(ks *KeySpec, es []Entry, bf uint, d int) *CNode {
	if len(es) == 0 {
		return nil
	}
	n := &CNode{Level: d}
	start := 0
	for i, e := range es {
		if int(ks.Layer(e.K, bf)) >= d {
			n.Children = append(n.Children, sub(ks, es[start:i], bf, d))
			n.Keys = append(n.Keys, e.K)
			n.Vals = append(n.Vals, e.V)
			start = i + 1
		}
	}
	n.Children = append(n.Children, sub(ks, es[start:], bf, d))
	return n
}

func sub(ks *KeySpec, es []Entry, bf uint, d int) *CNode {
	if len(es) == 0 {
		return nil
	}
	if d == 0 {
		panic("ref: entries below level 0")
	}
	return build(ks, es, bf, d-1)
}

// ---------- codec ----------

const (
	FormatBinary    = "v1.1.5binary"
	FormatMarshaler = "v1marshaler"
)

// Codec encodes/decodes nodes independently of mast. Elem marshals one key or
// value (default: encoding/json).
type Codec struct {
	Format string
	Elem   func(interface{}) ([]byte, error)
}

func (c *Codec) elem(v interface{}) ([]byte, error) {
	if c.Elem != nil {
		return c.Elem(v)
	}
	return json.Marshal(v)
}

func uvarint(buf []byte, n int) []byte {
	var tmp [binary.MaxVarintLen64]byte
	k := binary.PutUvarint(tmp[:], uint64(n))
	return append(buf, tmp[:k]...)
}

// RawNode is a decoded node: raw element encodings and child names ("" = nil).
type RawNode struct {
	Keys  [][]byte
	Vals  [][]byte
	Links []string // exactly as stored: may be empty when all links are nil
}

// EncodeRaw encodes already-marshaled elements and link names.
func (c *Codec) EncodeRaw(keys, vals [][]byte, links []string) ([]byte, error) {
	allNil := true
	for _, l := range links {
		if l != "" {
			allNil = false
		}
	}
	if allNil {
		links = nil
	}
	switch c.Format {
	case FormatBinary:
		var buf []byte
		buf = uvarint(buf, len(keys))
		for _, k := range keys {
			buf = uvarint(buf, len(k))
			buf = append(buf, k...)
		}
		buf = uvarint(buf, len(vals))
		for _, v := range vals {
			buf = uvarint(buf, len(v))
			buf = append(buf, v...)
		}
		buf = uvarint(buf, len(links))
		for _, l := range links {
			buf = uvarint(buf, len(l))
			buf = append(buf, l...)
		}
		return buf, nil
	case FormatMarshaler:
		var b bytes.Buffer
		b.WriteString(`{"Key":[`)
		for i, k := range keys {
			if i > 0 {
				b.WriteByte(',')
			}
			b.Write(k)
		}
		b.WriteString(`],"Value":[`)
		for i, v := range vals {
			if i > 0 {
				b.WriteByte(',')
			}
			b.Write(v)
		}
		b.WriteString(`]`)
		if len(links) > 0 {
			b.WriteString(`,"Link":[`)
			for i, l := range links {
				if i > 0 {
					b.WriteByte(',')
				}
				if l == "" {
					b.WriteString("null")
				} else {
					q, _ := json.Marshal(l)
					b.Write(q)
				}
			}
			b.WriteString(`]`)
		}
		b.WriteString(`}`)
		return b.Bytes(), nil
	}
	return nil, fmt.Errorf("ref: unknown format %q", c.Format)
}

// Encode fills Name/Bytes bottom-up and returns all (name -> bytes) of the tree.
func (c *Codec) Encode(n *CNode, out map[string][]byte) (string, error) {
	if n == nil {
		return "", nil
	}
	links := make([]string, len(n.Children))
	for i, ch := range n.Children {
		l, err := c.Encode(ch, out)
		if err != nil {
			return "", err
		}
		links[i] = l
	}
	keys := make([][]byte, len(n.Keys))
	vals := make([][]byte, len(n.Vals))
	for i := range n.Keys {
		var err error
		if keys[i], err = c.elem(n.Keys[i]); err != nil {
			return "", err
		}
		if vals[i], err = c.elem(n.Vals[i]); err != nil {
			return "", err
		}
	}
	b, err := c.EncodeRaw(keys, vals, links)
	if err != nil {
		return "", err
	}
	n.Bytes = b
	n.Name = Name(b)
	if out != nil {
		out[n.Name] = b
	}
	return n.Name, nil
}

var ErrDecode = errors.New("ref: undecodable node")

func readUvarint(b []byte) (int, []byte, error) {
	v, k := binary.Uvarint(b)
	if k <= 0 {
		return 0, nil, ErrDecode
	}
	if v > uint64(len(b)) {
		return 0, nil, ErrDecode
	}
	return int(v), b[k:], nil
}

func readList(b []byte) ([][]byte, []byte, error) {
	n, b, err := readUvarint(b)
	if err != nil {
		return nil, nil, err
	}
	out := make([][]byte, 0, n)
	for i := 0; i < n; i++ {
		var l int
		l, b, err = readUvarint(b)
		if err != nil {
			return nil, nil, err
		}
		if l > len(b) {
			return nil, nil, ErrDecode
		}
		out = append(out, b[:l])
		b = b[l:]
	}
	return out, b, nil
}

// Decode parses stored bytes. It is strict: trailing bytes are an error.
func (c *Codec) Decode(b []byte) (*RawNode, error) {
	switch c.Format {
	case FormatBinary:
		keys, rest, err := readList(b)
		if err != nil {
			return nil, err
		}
		vals, rest, err := readList(rest)
		if err != nil {
			return nil, err
		}
		links, rest, err := readList(rest)
		if err != nil {
			return nil, err
		}
		if len(rest) != 0 {
			return nil, ErrDecode
		}
		rn := &RawNode{Keys: keys, Vals: vals}
		for _, l := range links {
			rn.Links = append(rn.Links, string(l))
		}
		return rn, nil
	case FormatMarshaler:
		var sn struct {
			Key   []json.RawMessage
			Value []json.RawMessage
			Link  []*string
		}
		dec := json.NewDecoder(bytes.NewReader(b))
		if err := dec.Decode(&sn); err != nil {
			return nil, ErrDecode
		}
		rn := &RawNode{}
		for _, k := range sn.Key {
			rn.Keys = append(rn.Keys, []byte(k))
		}
		for _, v := range sn.Value {
			rn.Vals = append(rn.Vals, []byte(v))
		}
		for _, l := range sn.Link {
			if l == nil {
				rn.Links = append(rn.Links, "")
			} else {
				rn.Links = append(rn.Links, *l)
			}
		}
		return rn, nil
	}
	return nil, fmt.Errorf("ref: unknown format %q", c.Format)
}

// ---------- store walker ----------

// SNode is a node decoded from a store.
type SNode struct {
	Name     string
	Raw      *RawNode
	Keys     []interface{}
	Children []*SNode // len(Keys)+1
}

// Walk decodes everything reachable from root in get. Missing or undecodable
// nodes are errors. reach collects the reachable names.
func (c *Codec) Walk(ks *KeySpec, get func(string) ([]byte, bool), root string, reach map[string]bool) (*SNode, error) {
	if root == "" {
		return nil, nil
	}
	b, ok := get(root)
	if !ok {
		return nil, fmt.Errorf("node %s missing from store", root)
	}
	if Name(b) != root {
		return nil, fmt.Errorf("node %s: bytes hash to %s", root, Name(b))
	}
	if reach != nil {
		reach[root] = true
	}
	rn, err := c.Decode(b)
	if err != nil {
		return nil, fmt.Errorf("node %s: %w", root, err)
	}
	sn := &SNode{Name: root, Raw: rn}
	if len(rn.Keys) != len(rn.Vals) {
		return nil, fmt.Errorf("node %s: %d keys but %d values", root, len(rn.Keys), len(rn.Vals))
	}
	for _, rk := range rn.Keys {
		k, err := ks.Dec(rk)
		if err != nil {
			return nil, fmt.Errorf("node %s: key %q: %w", root, rk, err)
		}
		sn.Keys = append(sn.Keys, k)
	}
	if len(rn.Links) != 0 && len(rn.Links) != len(rn.Keys)+1 {
		return nil, fmt.Errorf("node %s: %d keys but %d link slots", root, len(rn.Keys), len(rn.Links))
	}
	sn.Children = make([]*SNode, len(rn.Keys)+1)
	for i, l := range rn.Links {
		ch, err := c.Walk(ks, get, l, reach)
		if err != nil {
			return nil, err
		}
		sn.Children[i] = ch
	}
	return sn, nil
}

// Reach returns the set of names reachable from root (nil root = empty set).
func (c *Codec) Reach(ks *KeySpec, get func(string) ([]byte, bool), root string) (map[string]bool, error) {
	r := map[string]bool{}
	_, err := c.Walk(ks, get, root, r)
	return r, err
}

// CountEntries returns the number of entries under sn.
func CountEntries(sn *SNode) int {
	if sn == nil {
		return 0
	}
	n := len(sn.Keys)
	for _, ch := range sn.Children {
		n += CountEntries(ch)
	}
	return n
}

// CheckShape checks the Merkle-search-tree shape invariants of a decoded tree
// against the recorded height H and size; returns the list of broken clauses.
func CheckShape(ks *KeySpec, sn *SNode, bf uint, H int, size uint64) []string {
	var bad []string
	if sn == nil {
		if size != 0 {
			bad = append(bad, fmt.Sprintf("size: recorded %d but no root node", size))
		}
		return bad
	}
	var rec func(n *SNode, level int, lo, hi interface{}, top bool)
	rec = func(n *SNode, level int, lo, hi interface{}, top bool) {
		if level < 0 {
			bad = append(bad, fmt.Sprintf("below-level-0: node %s at level %d", n.Name, level))
			return
		}
		nch := 0
		for _, ch := range n.Children {
			if ch != nil {
				nch++
			}
		}
		if level == 0 && nch > 0 {
			bad = append(bad, fmt.Sprintf("level-0-children: node %s at level 0 has %d children", n.Name, nch))
		}
		if len(n.Keys) == 0 && nch != 1 {
			bad = append(bad, fmt.Sprintf("entryless: node %s has no entries and %d children", n.Name, nch))
		}
		if len(n.Raw.Links) != 0 && len(n.Raw.Links) != len(n.Keys)+1 {
			bad = append(bad, fmt.Sprintf("link-slots: node %s has %d keys and %d link slots", n.Name, len(n.Keys), len(n.Raw.Links)))
		}
		for i, k := range n.Keys {
			if i > 0 && ks.Cmp(n.Keys[i-1], k) >= 0 {
				bad = append(bad, fmt.Sprintf("order: node %s keys %v !< %v", n.Name, n.Keys[i-1], k))
			}
			if lo != nil && ks.Cmp(lo, k) >= 0 {
				bad = append(bad, fmt.Sprintf("range: node %s key %v not above parent bound %v", n.Name, k, lo))
			}
			if hi != nil && ks.Cmp(k, hi) >= 0 {
				bad = append(bad, fmt.Sprintf("range: node %s key %v not below parent bound %v", n.Name, k, hi))
			}
			l := int(ks.Layer(k, bf))
			if top {
				if l < level {
					bad = append(bad, fmt.Sprintf("layer: top node %s (level %d) holds key %v of layer %d", n.Name, level, k, l))
				}
			} else if l != level {
				bad = append(bad, fmt.Sprintf("layer: node %s (level %d) holds key %v of layer %d", n.Name, level, k, l))
			}
		}
		for i, ch := range n.Children {
			if ch == nil {
				continue
			}
			clo, chi := lo, hi
			if i > 0 {
				clo = n.Keys[i-1]
			}
			if i < len(n.Keys) {
				chi = n.Keys[i]
			}
			rec(ch, level-1, clo, chi, false)
		}
	}
	rec(sn, H, nil, nil, true)
	if got := CountEntries(sn); uint64(got) != size {
		bad = append(bad, fmt.Sprintf("size: recorded %d but %d entries reachable", size, got))
	}
	return bad
}

// Flatten returns the keys of a decoded tree in order, with their raw values.
func Flatten(sn *SNode, f func(k interface{}, rawV []byte)) {
	if sn == nil {
		return
	}
	for i := range sn.Children {
		Flatten(sn.Children[i], f)
		if i < len(sn.Keys) {
			f(sn.Keys[i], sn.Raw.Vals[i])
		}
	}
}

// NodeRange describes a stored node's position: its level and open key interval.
type NodeRange struct {
	Level  int
	Lo, Hi interface{} // nil = unbounded
}

// Ranges maps every reachable node name to its (first-seen) range.
func Ranges(sn *SNode, H int) map[string]NodeRange {
	out := map[string]NodeRange{}
	var rec func(n *SNode, level int, lo, hi interface{})
	rec = func(n *SNode, level int, lo, hi interface{}) {
		if n == nil {
			return
		}
		if _, ok := out[n.Name]; !ok {
			out[n.Name] = NodeRange{level, lo, hi}
		}
		for i, ch := range n.Children {
			clo, chi := lo, hi
			if i > 0 {
				clo = n.Keys[i-1]
			}
			if i < len(n.Keys) {
				chi = n.Keys[i]
			}
			rec(ch, level-1, clo, chi)
		}
	}
	rec(sn, H, nil, nil)
	return out
}
