package world

import "reflect"

// Fresh returns a deep copy of v: every pointer, slice and map in it is newly allocated.
// Arguments handed to Insert/Delete are always fresh copies, so nothing in the library can
// rely on the caller passing the very object that is stored (pointer identity, a shared
// backing array), which a real caller after a reload never does.
func Fresh(v interface{}) interface{} {
	if v == nil {
		return nil
	}
	return deepCopy(reflect.ValueOf(v)).Interface()
}

func deepCopy(v reflect.Value) reflect.Value {
	switch v.Kind() {
	case reflect.Ptr:
		if v.IsNil() {
			return v
		}
		n := reflect.New(v.Type().Elem())
		n.Elem().Set(deepCopy(v.Elem()))
		return n
	case reflect.Slice:
		if v.IsNil() {
			return v
		}
		n := reflect.MakeSlice(v.Type(), v.Len(), v.Len())
		for i := 0; i < v.Len(); i++ {
			n.Index(i).Set(deepCopy(v.Index(i)))
		}
		return n
	case reflect.Map:
		if v.IsNil() {
			return v
		}
		n := reflect.MakeMapWithSize(v.Type(), v.Len())
		for _, k := range v.MapKeys() {
			n.SetMapIndex(deepCopy(k), deepCopy(v.MapIndex(k)))
		}
		return n
	case reflect.Struct:
		n := reflect.New(v.Type()).Elem()
		n.Set(v) // unexported fields are copied shallowly
		for i := 0; i < v.NumField(); i++ {
			if n.Field(i).CanSet() {
				n.Field(i).Set(deepCopy(v.Field(i)))
			}
		}
		return n
	case reflect.Interface:
		if v.IsNil() {
			return v
		}
		n := reflect.New(v.Type()).Elem()
		n.Set(deepCopy(v.Elem()))
		return n
	case reflect.Array:
		n := reflect.New(v.Type()).Elem()
		for i := 0; i < v.Len(); i++ {
			n.Index(i).Set(deepCopy(v.Index(i)))
		}
		return n
	}
	return v
}

// FreshKey / FreshVal: fresh copies of the i-th key (universe or probe) / value.
func (c *Config) FreshKey(i int) interface{} { return Fresh(c.Key(i)) }
func (c *Config) FreshVal(i int) interface{} { return Fresh(c.Vals[i]) }
