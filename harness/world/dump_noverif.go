//go:build !verif

package world

import (
	"fmt"
	"strings"
	"sync/atomic"

	"github.com/jrhy/mast"
)

// HookAvailable is false in the black-box fallback build: no state can be merged,
// so every state key is unique and the search degenerates to a depth-bounded tree.
const HookAvailable = false

var uniq int64

type Dumper struct{ sb strings.Builder }

func NewDumper(reduced bool) *Dumper {
	d := &Dumper{}
	fmt.Fprintf(&d.sb, "U%d;", atomic.AddInt64(&uniq, 1))
	return d
}
func (d *Dumper) Tree(m *mast.Mast)                     {}
func (d *Dumper) Cursor(c *mast.Cursor)                 {}
func (d *Dumper) CacheEntries(m map[string]interface{}) {}
func (d *Dumper) Raw(s string)                          { d.sb.WriteString(s) }
func (d *Dumper) String() string                        { return d.sb.String() }

type NodeInfo struct{}

func Inspect(v interface{}) (NodeInfo, bool) { return NodeInfo{}, false }
