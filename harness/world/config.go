// Package world builds small closed systems ("worlds") around the real mast
// implementation: 1-3 trees, retained roots, a cursor, one or two recording
// stores and a cache, all driven through the public API, plus a canonical key of
// the whole heap obtained through the verif overlay hook.
package world

import (
	"bytes"
	"encoding/json"
	"fmt"
	"strconv"
	"strings"

	"github.com/jrhy/mast"
	"verifharness/ref"
)

// LKey is a user key type whose layer is data: lets the explorer enumerate every
// assignment of layers to keys.
type LKey struct {
	K int
	L uint8
}

func (a LKey) Layer(bf uint) uint8 { return a.L }
func (a LKey) Order(o mast.Key) int {
	b := o.(LKey)
	switch {
	case a.K < b.K:
		return -1
	case a.K > b.K:
		return 1
	}
	return 0
}

// SKey is a struct key without methods: ordered and layered by its marshaled bytes.
type SKey struct {
	A string
	B int
}

// SVal is a struct value.
type SVal struct {
	Asdf string
	Q    bool
}

// TVal is a struct value with indirection (slice, map, omitted fields).
type TVal struct {
	Tags []string       `json:",omitempty"`
	M    map[string]int `json:",omitempty"`
}

// IVal is a struct value whose static type is comparable although its content need not be
// (an interface field holding a slice or a map).
type IVal struct {
	Name  string
	Extra interface{}
}

// Config fixes one configuration of tree + environment + finite universe.
type Config struct {
	Name     string
	BF       uint
	Format   string // ref.FormatBinary | ref.FormatMarshaler
	KS       *ref.KeySpec
	Keys     []interface{} // universe (ascending)
	Probes   []interface{} // never-inserted probe keys
	Vals     []interface{}
	KeysLike interface{}
	ValsLike interface{}
	Cache    string
	// Tagged: custom marshaler with UnmarshalerUsesRegisteredTypes (v1marshaler only)
	Tagged bool
	// RegisteredTypes sets UnmarshalerUsesRegisteredTypes with the default JSON
	// marshaler (the configuration of TestNilValues: ValuesLike=nil, values are
	// not retrievable after a reload, only membership is)
	RegisteredTypes bool
	// RetainStore: the store keeps the byte slices it is handed (no copy)
	RetainStore bool
	// MarshalNL: the user marshaler is a json.Encoder (its output ends in a newline), v1marshaler only
	MarshalNL bool
	// MinEntries: when versions (subsets of the universe) are enumerated, only those with at least this many entries
	MinEntries int
	// MaxDepth bounds the search depth for this configuration (0 = closure)
	MaxDepth int
	// InMemory: start from mast.NewInMemory() (no store, bf 16)
	InMemory bool
	// CustomCompare: install a counting KeyCompare wrapper (fault injection)
	CustomCompare bool
	// WideCompare: install a KeyCompare that answers like strcmp (negative / zero / positive, here
	// -3, 0, 3) instead of -1, 0, 1: RemoteConfig.KeyCompare documents no range
	WideCompare bool
	// DefaultMarshal: RemoteConfig.Marshal / Unmarshal are left nil (the library's own defaults; no marshal
	// call counting or fault injection in such a configuration)
	DefaultMarshal bool
	// StartHeight: the history starts from an empty root that records this height (a tree taller than its size
	// gives, as older releases left them after deletes): top nodes without entries of their own
	StartHeight uint8
	// AltKeyMarshal: struct keys (SKey) are marshaled by the configured marshaler in a form of its own
	// ("%08d|%s" of B and A) instead of JSON: with KeyCompare left nil, order and layer of such keys are
	// defined by *that* form
	AltKeyMarshal bool
	// RawStrings: the configured marshaler writes string elements as their bytes, unquoted (anything else as JSON):
	// an element's encoding may then be empty (the empty string; with protobuf, a message holding only defaults)
	RawStrings bool
	// TwoSlots: the alphabet works on two tree slots (clone either way, modify and persist both, load kept
	// roots into the second): the structural monitors then also judge versions persisted by trees that
	// share in-memory nodes with another live tree
	TwoSlots bool
	// FlushFaults: the alphabet also holds MakeRoot calls during which a class of Store calls or the
	// i-th Marshal call fails (OpPersistFail)
	FlushFaults bool
	// Exact: states are merged on the exact key (slice capacities and backing-array identities
	// included), so a node reached with spare capacity in its slices is explored as its own state
	Exact bool
	// Seed: operations applied to build the initial state (non-initial starts)
	Seed []Op
}

func (c *Config) String() string { return c.Name }

// ---------- key specs ----------

func cmpInt64(a, b int64) int {
	switch {
	case a < b:
		return -1
	case a > b:
		return 1
	}
	return 0
}
func cmpUint64(a, b uint64) int {
	switch {
	case a < b:
		return -1
	case a > b:
		return 1
	}
	return 0
}

func decInto[T any](raw []byte) (interface{}, error) {
	var v T
	if err := json.Unmarshal(raw, &v); err != nil {
		return nil, err
	}
	return v, nil
}

var (
	KSUint = &ref.KeySpec{Name: "uint",
		Cmp:   func(a, b interface{}) int { return cmpUint64(uint64(a.(uint)), uint64(b.(uint))) },
		Layer: func(k interface{}, bf uint) uint8 { return ref.UintLayer(uint64(k.(uint)), bf) },
		Dec:   decInto[uint]}
	KSUint64 = &ref.KeySpec{Name: "uint64",
		Cmp:   func(a, b interface{}) int { return cmpUint64(a.(uint64), b.(uint64)) },
		Layer: func(k interface{}, bf uint) uint8 { return ref.UintLayer(k.(uint64), bf) },
		Dec:   decInto[uint64]}
	KSInt = &ref.KeySpec{Name: "int",
		Cmp:   func(a, b interface{}) int { return cmpInt64(int64(a.(int)), int64(b.(int))) },
		Layer: func(k interface{}, bf uint) uint8 { return ref.IntLayer(int64(k.(int)), bf) },
		Dec:   decInto[int]}
	KSInt64 = &ref.KeySpec{Name: "int64",
		Cmp:   func(a, b interface{}) int { return cmpInt64(a.(int64), b.(int64)) },
		Layer: func(k interface{}, bf uint) uint8 { return ref.IntLayer(a64(k), bf) },
		Dec:   decInto[int64]}
	// the narrow integer types have a numeric layer but no case of their own in
	// DefaultKeyCompare: they are ordered by the bytes of their marshaled (decimal) form
	KSInt32 = &ref.KeySpec{Name: "int32",
		Cmp:   cmpMarshaled,
		Layer: func(k interface{}, bf uint) uint8 { return ref.IntLayer(int64(k.(int32)), bf) },
		Dec:   decInto[int32]}
	KSUint8 = &ref.KeySpec{Name: "uint8",
		Cmp:   cmpMarshaled,
		Layer: func(k interface{}, bf uint) uint8 { return ref.UintLayer(uint64(k.(uint8)), bf) },
		Dec:   decInto[uint8]}
	KSString = &ref.KeySpec{Name: "string",
		Cmp:   func(a, b interface{}) int { return strings.Compare(a.(string), b.(string)) },
		Layer: func(k interface{}, bf uint) uint8 { return ref.BlobLayer([]byte(k.(string)), bf) },
		Dec:   decInto[string]}
	KSBytes = &ref.KeySpec{Name: "bytes",
		Cmp:   func(a, b interface{}) int { return bytes.Compare(a.([]byte), b.([]byte)) },
		Layer: func(k interface{}, bf uint) uint8 { return ref.BlobLayer(k.([]byte), bf) },
		Dec:   decInto[[]byte]}
	KSLKey = &ref.KeySpec{Name: "LKey",
		Cmp:   func(a, b interface{}) int { return cmpInt64(int64(a.(LKey).K), int64(b.(LKey).K)) },
		Layer: func(k interface{}, bf uint) uint8 { return k.(LKey).L },
		Dec:   decInto[LKey]}
	KSStruct = &ref.KeySpec{Name: "struct",
		Cmp: func(a, b interface{}) int {
			x, _ := json.Marshal(a)
			y, _ := json.Marshal(b)
			return bytes.Compare(x, y)
		},
		Layer: func(k interface{}, bf uint) uint8 {
			x, _ := json.Marshal(k)
			return ref.BlobLayer(x, bf)
		},
		Dec: decInto[SKey]}
)

// AltKeyBytes / AltKeyParse: the non-JSON form of struct keys under Config.AltKeyMarshal.
func AltKeyBytes(k SKey) []byte { return []byte(fmt.Sprintf("%08d|%s", k.B, k.A)) }

func AltKeyParse(b []byte) (SKey, error) {
	s := string(b)
	i := strings.IndexByte(s, '|')
	if i < 0 {
		return SKey{}, fmt.Errorf("alt key: %q", s)
	}
	n, err := strconv.Atoi(s[:i])
	if err != nil {
		return SKey{}, err
	}
	return SKey{A: s[i+1:], B: n}, nil
}

// KSStructAlt: struct keys ordered and layered by their AltKeyBytes.
var KSStructAlt = &ref.KeySpec{Name: "struct-alt",
	Cmp:   func(a, b interface{}) int { return bytes.Compare(AltKeyBytes(a.(SKey)), AltKeyBytes(b.(SKey))) },
	Layer: func(k interface{}, bf uint) uint8 { return ref.BlobLayer(AltKeyBytes(k.(SKey)), bf) },
	Dec:   func(raw []byte) (interface{}, error) { return AltKeyParse(raw) }}

func a64(k interface{}) int64 { return k.(int64) }

func cmpMarshaled(a, b interface{}) int {
	x, _ := json.Marshal(a)
	y, _ := json.Marshal(b)
	return bytes.Compare(x, y)
}

// ---------- universes ----------

func uints(xs ...uint) []interface{} {
	out := make([]interface{}, len(xs))
	for i, x := range xs {
		out[i] = x
	}
	return out
}

func uintRange(lo, hi uint) []interface{} {
	var out []interface{}
	for x := lo; x <= hi; x++ {
		out = append(out, x)
	}
	return out
}

func strs(xs ...string) []interface{} {
	out := make([]interface{}, len(xs))
	for i, x := range xs {
		out[i] = x
	}
	return out
}

// UintCfg: uint keys lo..hi at branch factor bf with nv string values.
func UintCfg(bf uint, keys []interface{}, nv int, format, cache string) *Config {
	vals := strs("a", "b")[:nv]
	c := &Config{BF: bf, Format: format, KS: KSUint, Keys: keys, Vals: vals,
		KeysLike: uint(0), ValsLike: "", Cache: cache,
		Probes: []interface{}{uint(1000003)}}
	c.Name = fmt.Sprintf("uint%v/bf%d/v%d/%s/%s", keys, bf, nv, shortFmt(format), cache)
	return c
}

func shortFmt(f string) string {
	if f == ref.FormatBinary {
		return "bin"
	}
	return "msh"
}

// LKeyCfg: keys 1..n with the given layer assignment.
func LKeyCfg(bf uint, layers []uint8, nv int, format, cache string) *Config {
	var keys []interface{}
	for i, l := range layers {
		keys = append(keys, LKey{K: (i + 1) * 10, L: l})
	}
	c := &Config{BF: bf, Format: format, KS: KSLKey, Keys: keys, Vals: strs("a", "b")[:nv],
		KeysLike: LKey{}, ValsLike: "", Cache: cache,
		Probes: []interface{}{LKey{K: 5, L: 0}, LKey{K: 25, L: 1}, LKey{K: 1000, L: 2}}}
	c.Name = fmt.Sprintf("LKey%v/bf%d/v%d/%s/%s", layers, bf, nv, shortFmt(format), cache)
	return c
}

// FindBlobKeys searches short strings whose CRC layer at bf equals the wanted
// layers (deterministic enumeration); used for string / []byte / struct universes.
func FindBlobKeys(bf uint, want []uint8, mk func(i int) (interface{}, []byte)) []interface{} {
	out := make([]interface{}, len(want))
	found := 0
	for i := 0; found < len(want) && i < 5_000_000; i++ {
		k, b := mk(i)
		l := ref.BlobLayer(b, bf)
		for j, w := range want {
			if out[j] == nil && w == l {
				out[j] = k
				found++
				break
			}
		}
	}
	if found != len(want) {
		panic("FindBlobKeys: universe not found")
	}
	return out
}

func sortKeys(ks *ref.KeySpec, keys []interface{}) []interface{} {
	es := make([]ref.Entry, len(keys))
	for i, k := range keys {
		es[i] = ref.Entry{K: k}
	}
	ref.SortEntries(ks, es)
	out := make([]interface{}, len(keys))
	for i := range es {
		out[i] = es[i].K
	}
	return out
}

// StringCfg: string keys with prescribed CRC layers.
func StringCfg(bf uint, want []uint8, format, cache string) *Config {
	keys := FindBlobKeys(bf, want, func(i int) (interface{}, []byte) {
		s := fmt.Sprintf("k%d", i)
		return s, []byte(s)
	})
	c := &Config{BF: bf, Format: format, KS: KSString, Keys: sortKeys(KSString, keys), Vals: strs("a", "b"),
		KeysLike: "", ValsLike: "", Cache: cache, Probes: strs("", "zzz")}
	c.Name = fmt.Sprintf("string%v/bf%d/%s/%s", want, bf, shortFmt(format), cache)
	return c
}

// BytesCfg: []byte keys with prescribed CRC layers; int values.
func BytesCfg(bf uint, want []uint8, format, cache string) *Config {
	keys := FindBlobKeys(bf, want, func(i int) (interface{}, []byte) {
		b := []byte{byte(i), byte(i >> 8), byte(i >> 16), 0xff}
		return b, b
	})
	c := &Config{BF: bf, Format: format, KS: KSBytes, Keys: sortKeys(KSBytes, keys), Vals: []interface{}{1, 2},
		KeysLike: []byte{}, ValsLike: 0, Cache: cache, Probes: []interface{}{[]byte{}, []byte{0xff, 0xff, 0xff, 0xff, 0xff}}}
	c.Name = fmt.Sprintf("bytes%v/bf%d/%s/%s", want, bf, shortFmt(format), cache)
	return c
}

// StructCfg: struct keys (ordered/layered by marshaled bytes); struct values.
func StructCfg(bf uint, want []uint8, format, cache string) *Config {
	keys := FindBlobKeys(bf, want, func(i int) (interface{}, []byte) {
		k := SKey{A: fmt.Sprintf("s%d", i%7), B: i}
		b, _ := json.Marshal(k)
		return k, b
	})
	c := &Config{BF: bf, Format: format, KS: KSStruct, Keys: sortKeys(KSStruct, keys),
		Vals:     []interface{}{SVal{"a", true}, SVal{"b", false}},
		KeysLike: SKey{}, ValsLike: SVal{}, Cache: cache,
		Probes: []interface{}{SKey{A: "", B: -1}, SKey{A: "zzzz", B: 0}}}
	c.Name = fmt.Sprintf("struct%v/bf%d/%s/%s", want, bf, shortFmt(format), cache)
	return c
}

// IntCfg: int keys incl. negatives and zero.
func IntCfg(bf uint, keys []int, vals []interface{}, valsLike interface{}, format, cache string) *Config {
	var ks []interface{}
	for _, k := range keys {
		ks = append(ks, k)
	}
	c := &Config{BF: bf, Format: format, KS: KSInt, Keys: ks, Vals: vals,
		KeysLike: 0, ValsLike: valsLike, Cache: cache, Probes: []interface{}{-1000003, 1000003}}
	c.Name = fmt.Sprintf("int%v/bf%d/%T/%s/%s", keys, bf, valsLike, shortFmt(format), cache)
	return c
}

func Int64Cfg(bf uint, keys []int64, format, cache string) *Config {
	var ks []interface{}
	for _, k := range keys {
		ks = append(ks, k)
	}
	c := &Config{BF: bf, Format: format, KS: KSInt64, Keys: ks, Vals: strs("a", "b"),
		KeysLike: int64(0), ValsLike: "", Cache: cache, Probes: []interface{}{int64(-1000003), int64(1000003)}}
	c.Name = fmt.Sprintf("int64%v/bf%d/%s/%s", keys, bf, shortFmt(format), cache)
	return c
}

func Uint64Cfg(bf uint, keys []uint64, format, cache string) *Config {
	var ks []interface{}
	for _, k := range keys {
		ks = append(ks, k)
	}
	c := &Config{BF: bf, Format: format, KS: KSUint64, Keys: ks, Vals: strs("a", "b"),
		KeysLike: uint64(0), ValsLike: "", Cache: cache, Probes: []interface{}{uint64(1000003)}}
	c.Name = fmt.Sprintf("uint64%v/bf%d/%s/%s", keys, bf, shortFmt(format), cache)
	return c
}

// Int32Cfg: int32 keys (numeric layer, ordered by their decimal text).
func Int32Cfg(bf uint, keys []int32, format, cache string) *Config {
	var ks []interface{}
	for _, k := range keys {
		ks = append(ks, k)
	}
	c := &Config{BF: bf, Format: format, KS: KSInt32, Keys: sortKeys(KSInt32, ks), Vals: strs("a", "b"),
		KeysLike: int32(0), ValsLike: "", Cache: cache, Probes: []interface{}{int32(-1000003), int32(5), int32(1000003)}}
	c.Name = fmt.Sprintf("int32%v/bf%d/%s/%s", keys, bf, shortFmt(format), cache)
	return c
}

// Uint8Cfg: uint8 keys (numeric layer, ordered by their decimal text).
func Uint8Cfg(bf uint, keys []uint8, format, cache string) *Config {
	var ks []interface{}
	for _, k := range keys {
		ks = append(ks, k)
	}
	c := &Config{BF: bf, Format: format, KS: KSUint8, Keys: sortKeys(KSUint8, ks), Vals: strs("a", "b"),
		KeysLike: uint8(0), ValsLike: "", Cache: cache, Probes: []interface{}{uint8(3), uint8(255)}}
	c.Name = fmt.Sprintf("uint8%v/bf%d/%s/%s", keys, bf, shortFmt(format), cache)
	return c
}

// WithTwoSlots returns c with the two-slot alphabet, explored to depth d.
func WithTwoSlots(c *Config, d int) *Config {
	c.TwoSlots = true
	c.MaxDepth = d
	c.Name = fmt.Sprintf("two-trees/%s/depth%d", c.Name, d)
	return c
}

// WithFlushFaults returns c with failing MakeRoot calls in its alphabet.
func WithFlushFaults(c *Config) *Config {
	c.FlushFaults = true
	c.Name = "flush-faults/" + c.Name
	return c
}

// ExactKey returns c with exact state merging.
func ExactKey(c *Config) *Config {
	c.Exact = true
	c.Name = "exact-key/" + c.Name
	return c
}

// Wide returns c with the strcmp-style comparator installed.
func Wide(c *Config) *Config {
	c.WideCompare = true
	c.Name = "wide-compare/" + c.Name
	return c
}
