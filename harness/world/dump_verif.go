//go:build verif

package world

import "github.com/jrhy/mast"

// HookAvailable reports whether the private-state dump hook was compiled in.
const HookAvailable = true

type Dumper = mast.VerifDumper

func NewDumper(reduced bool) *Dumper { return mast.NewVerifDumper(reduced) }

// Inspect exposes a cached object for diagnosis only.
func Inspect(v interface{}) (mast.VerifNodeInfo, bool) { return mast.VerifInspect(v) }
