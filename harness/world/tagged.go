package world

import (
	"encoding/json"
	"fmt"

	"github.com/jrhy/mast"
)

// A custom marshaler that records element types ("registered types"), for
// RemoteConfig.UnmarshalerUsesRegisteredTypes. Only meaningful with v1marshaler
// where the whole Node passes through the marshaler.

type taggedElem struct {
	T string
	V json.RawMessage
}

type taggedNode struct {
	Key   []taggedElem
	Value []taggedElem
	Link  []interface{} `json:",omitempty"`
}

func tagOf(v interface{}) (string, error) {
	switch v.(type) {
	case nil:
		return "nil", nil
	case uint:
		return "uint", nil
	case int:
		return "int", nil
	case string:
		return "string", nil
	case LKey:
		return "LKey", nil
	case SKey:
		return "SKey", nil
	case SVal:
		return "SVal", nil
	case []int:
		return "[]int", nil
	}
	return "", fmt.Errorf("tagged marshal: unregistered type %T", v)
}

func untag(e taggedElem) (interface{}, error) {
	switch e.T {
	case "nil":
		return nil, nil
	case "uint":
		return decInto[uint](e.V)
	case "int":
		return decInto[int](e.V)
	case "string":
		return decInto[string](e.V)
	case "LKey":
		return decInto[LKey](e.V)
	case "SKey":
		return decInto[SKey](e.V)
	case "SVal":
		return decInto[SVal](e.V)
	case "[]int":
		return decInto[[]int](e.V)
	}
	return nil, fmt.Errorf("tagged unmarshal: unregistered type %q", e.T)
}

func tagSlice(xs []interface{}) ([]taggedElem, error) {
	out := make([]taggedElem, len(xs))
	for i, x := range xs {
		t, err := tagOf(x)
		if err != nil {
			return nil, err
		}
		b, err := json.Marshal(x)
		if err != nil {
			return nil, err
		}
		out[i] = taggedElem{t, b}
	}
	return out, nil
}

// TaggedMarshal marshals a mast.Node with type tags; anything else as plain JSON.
func TaggedMarshal(v interface{}) ([]byte, error) {
	n, ok := v.(mast.Node)
	if !ok {
		return json.Marshal(v)
	}
	var tn taggedNode
	var err error
	if tn.Key, err = tagSlice(n.Key); err != nil {
		return nil, err
	}
	if tn.Value, err = tagSlice(n.Value); err != nil {
		return nil, err
	}
	tn.Link = n.Link
	return json.Marshal(tn)
}

// TaggedUnmarshal is the inverse for *mast.Node; plain JSON otherwise.
func TaggedUnmarshal(b []byte, v interface{}) error {
	n, ok := v.(*mast.Node)
	if !ok {
		return json.Unmarshal(b, v)
	}
	var tn taggedNode
	if err := json.Unmarshal(b, &tn); err != nil {
		return err
	}
	n.Key = make([]interface{}, len(tn.Key))
	n.Value = make([]interface{}, len(tn.Value))
	for i := range tn.Key {
		var err error
		if n.Key[i], err = untag(tn.Key[i]); err != nil {
			return err
		}
		if n.Value[i], err = untag(tn.Value[i]); err != nil {
			return err
		}
	}
	n.Link = tn.Link
	return nil
}
