package world

import (
	"bytes"
	"context"
	"encoding/json"
	"errors"
	"fmt"
	"reflect"
	"sort"
	"strings"

	"github.com/jrhy/mast"
	"verifharness/env"
	"verifharness/ref"
)

var ctx = context.Background()

// OpKind enumerates the transition alphabet.
type OpKind uint8

const (
	OpIns         OpKind = iota // Insert(key K, value V) on tree A
	OpDel                       // Delete(key K, value V) on tree A
	OpPersist                   // MakeRoot on tree A, keep using the tree
	OpReload                    // MakeRoot on tree A, then LoadMast the root into slot A
	OpReloadJSON                // same, the Root passing through JSON
	OpKeep                      // MakeRoot on tree A and retain the root in root slot B
	OpLoad                      // LoadMast retained root B into tree slot A
	OpLoadNoCache               // same but without the node cache
	OpClone                     // Clone tree A into tree slot B
	OpCursor                    // open a cursor on tree A (implicit clone)
	OpGet                       // Get(key K) on tree A (a transition when a cache is attached)
	OpIter                      // full Iter on tree A
	OpDrop                      // forget tree A
	OpFlushCache                // the shared node cache loses all its entries (restart / eviction)
	// OpPersistFail: MakeRoot on tree A in an unhealthy environment. V < 10: every Store call whose node
	// name falls in class V (sum of the name's bytes mod 3) fails - a choice that does not depend on the
	// order in which the flush workers issue their calls; V >= 10: Marshal call number V-10 of the flush
	// fails. If no call is hit the op is an ordinary successful MakeRoot; otherwise MakeRoot is expected
	// to return an error and to leave no trace.
	OpPersistFail
)

// StoreClass is the fault class of a node name (see OpPersistFail).
func StoreClass(name string) int {
	s := 0
	for i := 0; i < len(name); i++ {
		s += int(name[i])
	}
	return s % 3
}

var opNames = map[OpKind]string{OpIns: "ins", OpDel: "del", OpPersist: "persist", OpReload: "reload", OpReloadJSON: "reloadjson",
	OpKeep: "keep", OpLoad: "load", OpLoadNoCache: "loadnc", OpClone: "clone", OpCursor: "cursor", OpGet: "get", OpIter: "iter", OpDrop: "drop", OpFlushCache: "flushcache", OpPersistFail: "persistfail"}

// Op is one transition. K and V index Config.Keys (K may point past it into Probes) and Config.Vals.
type Op struct {
	Kind OpKind
	A, B int
	K, V int
}

func (o Op) String() string {
	switch o.Kind {
	case OpIns, OpDel:
		return fmt.Sprintf("%s(t%d,k%d,v%d)", opNames[o.Kind], o.A, o.K, o.V)
	case OpGet:
		return fmt.Sprintf("get(t%d,k%d)", o.A, o.K)
	case OpKeep:
		return fmt.Sprintf("keep(t%d->r%d)", o.A, o.B)
	case OpLoad, OpLoadNoCache:
		return fmt.Sprintf("%s(r%d->t%d)", opNames[o.Kind], o.B, o.A)
	case OpClone:
		return fmt.Sprintf("clone(t%d->t%d)", o.A, o.B)
	case OpPersistFail:
		if o.V >= 10 {
			return fmt.Sprintf("persist(t%d) with Marshal call #%d failing", o.A, o.V-10)
		}
		return fmt.Sprintf("persist(t%d) with the Store of every node of name class %d failing", o.A, o.V)
	}
	return fmt.Sprintf("%s(t%d)", opNames[o.Kind], o.A)
}

// Describe renders an op with real key/value data.
func (c *Config) Describe(o Op) string {
	switch o.Kind {
	case OpIns, OpDel:
		return fmt.Sprintf("%s(t%d,%v,%v)", opNames[o.Kind], o.A, c.Key(o.K), c.Vals[o.V])
	case OpGet:
		return fmt.Sprintf("get(t%d,%v)", o.A, c.Key(o.K))
	}
	return o.String()
}

func (c *Config) DescribeHist(h []Op) []string {
	out := make([]string, len(h))
	for i, o := range h {
		out[i] = c.Describe(o)
	}
	return out
}

// Key returns universe key i (indices past Keys address Probes).
func (c *Config) Key(i int) interface{} {
	if i < len(c.Keys) {
		return c.Keys[i]
	}
	return c.Probes[i-len(c.Keys)]
}

func (c *Config) NAll() int { return len(c.Keys) + len(c.Probes) }

// Res is the outcome of one op.
type Res struct {
	Err    error
	Panic  interface{}
	Root   *mast.Root // root produced by persist-like ops
	Loaded *mast.Mast
	// environment traffic of the op; for reload ops Calls covers MakeRoot and
	// AuxCalls the LoadMast that follows
	Calls    []env.Call
	AuxCalls []env.Call
}

// Count returns the number of calls of a kind.
func Count(cs []env.Call, kind string) int {
	n := 0
	for _, c := range cs {
		if c.Kind == kind {
			n++
		}
	}
	return n
}

func (r Res) String() string {
	if r.Panic != nil {
		return fmt.Sprintf("PANIC(%v)", r.Panic)
	}
	if r.Err != nil {
		return fmt.Sprintf("err(%v)", r.Err)
	}
	return "ok"
}

// Contents is the observable map of a tree read through the most basic observers.
type Contents struct {
	M    map[int]int // key index -> value index (-1: a value outside the universe)
	Size uint64
	Bad  string // non-empty when Get itself failed
}

func (c Contents) String() string {
	keys := make([]int, 0, len(c.M))
	for k := range c.M {
		keys = append(keys, k)
	}
	sort.Ints(keys)
	var sb strings.Builder
	sb.WriteString("{")
	for i, k := range keys {
		if i > 0 {
			sb.WriteString(" ")
		}
		fmt.Fprintf(&sb, "k%d=v%d", k, c.M[k])
	}
	fmt.Fprintf(&sb, "}#%d", c.Size)
	if c.Bad != "" {
		sb.WriteString("!" + c.Bad)
	}
	return sb.String()
}

func (c Contents) Equal(o Contents) bool {
	if c.Size != o.Size || len(c.M) != len(o.M) || c.Bad != o.Bad {
		return false
	}
	for k, v := range c.M {
		if ov, ok := o.M[k]; !ok || ov != v {
			return false
		}
	}
	return true
}

// Base describes the persisted version a tree slot was loaded from / last persisted as.
type Base struct {
	Root     mast.Root
	Link     string // "" = nil link
	Contents Contents
	Valid    bool
}

// World is one closed system.
type World struct {
	Cfg    *Config
	Store  *env.Store
	Store2 *env.Store
	Cache  *env.Cache
	Cmp    *env.Counter // counts KeyCompare calls when Cfg.CustomCompare
	Msh    *env.Counter // counts Marshal calls (always wrapped)

	Trees   []*mast.Mast
	Model   []map[int]int  // reference map per slot (nil when slot unused)
	Mod     []map[int]bool // keys touched by successful mutations since Base
	HChg    []bool         // the height changed at some point since Base
	Base    []Base
	Roots   []*mast.Root
	RootC   []Contents // contents captured (through Get) when the root was retained
	Cursors []*mast.Cursor
	CursorC []Contents // contents of the tree when the cursor was opened

	LastC   []Contents // scratch for monitors: contents of each slot as last read
	MshGate func()     // called at every user-marshaler invocation (a scheduling point for engine S)

	Reduced bool // reduced state key
	NoLog   bool
}

const MaxTrees = 3
const MaxRoots = 2

// New builds a fresh world with tree 0 freshly created.
func New(cfg *Config) (*World, error) {
	w := &World{Cfg: cfg,
		Trees: make([]*mast.Mast, MaxTrees), Model: make([]map[int]int, MaxTrees), Mod: make([]map[int]bool, MaxTrees), HChg: make([]bool, MaxTrees), Base: make([]Base, MaxTrees),
		Roots: make([]*mast.Root, MaxRoots), RootC: make([]Contents, MaxRoots), Cursors: make([]*mast.Cursor, 1), CursorC: make([]Contents, 1), LastC: make([]Contents, MaxTrees),
		Cmp: &env.Counter{}, Msh: &env.Counter{}}
	if cfg.InMemory {
		m := mast.NewInMemory()
		w.Trees[0] = &m
		w.Model[0] = map[int]int{}
	} else {
		w.Store = env.NewStore("mem://s1")
		w.Store.Retain = cfg.RetainStore
		w.Cache = env.NewCache(cfg.Cache)
		root := mast.NewRoot(cfg.CreateOptions())
		root.Height = cfg.StartHeight
		m, err := root.LoadMast(ctx, w.RemoteConfig(w.Store, true))
		if err != nil {
			return nil, fmt.Errorf("fresh LoadMast: %w", err)
		}
		w.Trees[0] = m
		w.Model[0] = map[int]int{}
		w.Base[0] = Base{Root: *root, Valid: true, Contents: Contents{M: map[int]int{}}}
	}
	for _, op := range cfg.Seed {
		if !w.Enabled(op) {
			return nil, fmt.Errorf("seed op %v not enabled", op)
		}
		// an op of a stored history may legitimately have failed (e.g. a delete of an absent key)
		if r := w.Apply(op); r.Panic != nil {
			return nil, fmt.Errorf("seed op %v: %v", op, r)
		}
	}
	return w, nil
}

// CreateOptions maps the config to mast's creation options.
func (c *Config) CreateOptions() *mast.CreateRemoteOptions {
	o := &mast.CreateRemoteOptions{BranchFactor: c.BF}
	if c.Format == ref.FormatMarshaler {
		o.NodeFormat = mast.V1Marshaler
	} else {
		o.NodeFormat = mast.V115Binary
	}
	return o
}

// RemoteConfig builds the RemoteConfig for a store (with or without the cache).
func (w *World) RemoteConfig(st *env.Store, withCache bool) *mast.RemoteConfig {
	cfg := w.Cfg
	rc := &mast.RemoteConfig{
		KeysLike:                cfg.KeysLike,
		ValuesLike:              cfg.ValsLike,
		StoreImmutablePartsWith: st,
	}
	if withCache && w.Cache != nil {
		rc.NodeCache = w.Cache
	}
	if cfg.Tagged {
		rc.Marshal = func(v interface{}) ([]byte, error) {
			if err := w.Msh.Tick(); err != nil {
				return nil, err
			}
			return TaggedMarshal(v)
		}
		rc.Unmarshal = TaggedUnmarshal
		rc.UnmarshalerUsesRegisteredTypes = true
	} else if !cfg.DefaultMarshal {
		rc.Marshal = func(v interface{}) ([]byte, error) {
			if w.MshGate != nil {
				w.MshGate()
			}
			if err := w.Msh.Tick(); err != nil {
				return nil, err
			}
			if cfg.MarshalNL {
				var buf bytes.Buffer
				if err := json.NewEncoder(&buf).Encode(v); err != nil {
					return nil, err
				}
				return buf.Bytes(), nil
			}
			return json.Marshal(v)
		}
	}
	if cfg.RawStrings {
		inner := rc.Marshal
		rc.Marshal = func(v interface{}) ([]byte, error) {
			if s, ok := v.(string); ok {
				if err := w.Msh.Tick(); err != nil {
					return nil, err
				}
				return []byte(s), nil
			}
			return inner(v)
		}
		rc.Unmarshal = func(b []byte, v interface{}) error {
			if sp, ok := v.(*string); ok {
				*sp = string(b)
				return nil
			}
			return json.Unmarshal(b, v)
		}
	}
	if cfg.AltKeyMarshal {
		inner := rc.Marshal
		rc.Marshal = func(v interface{}) ([]byte, error) {
			if k, ok := v.(SKey); ok {
				if err := w.Msh.Tick(); err != nil {
					return nil, err
				}
				return AltKeyBytes(k), nil
			}
			return inner(v)
		}
		rc.Unmarshal = func(b []byte, v interface{}) error {
			if kp, ok := v.(*SKey); ok {
				k, err := AltKeyParse(b)
				if err != nil {
					return err
				}
				*kp = k
				return nil
			}
			return json.Unmarshal(b, v)
		}
	}
	if cfg.RegisteredTypes {
		rc.UnmarshalerUsesRegisteredTypes = true
	}
	if cfg.CustomCompare {
		base := mast.DefaultKeyCompare(json.Marshal)
		rc.KeyCompare = func(a, b interface{}) (int, error) {
			if err := w.Cmp.Tick(); err != nil {
				return 0, err
			}
			return base(a, b)
		}
	}
	if cfg.WideCompare {
		base := rc.KeyCompare
		if base == nil {
			base = mast.DefaultKeyCompare(json.Marshal)
		}
		rc.KeyCompare = func(a, b interface{}) (int, error) {
			c, err := base(a, b)
			return 3 * c, err
		}
	}
	return rc
}

// guard runs f, converting a panic into Res.Panic.
func guard(f func() error) (r Res) {
	defer func() {
		if p := recover(); p != nil {
			r.Panic = p
		}
	}()
	r.Err = f()
	return
}

// ValIndex maps a value read from a tree back to its universe index (-1 if foreign).
func (c *Config) ValIndex(v interface{}) int {
	for i, x := range c.Vals {
		if reflect.DeepEqual(x, v) {
			return i
		}
	}
	return -1
}

// ReadContents reads the observable map of a tree through per-key Get + Size.
func (w *World) ReadContents(m *mast.Mast) (c Contents) {
	c.M = map[int]int{}
	defer func() {
		if p := recover(); p != nil {
			c.Bad = fmt.Sprintf("panic: %v", p)
		}
	}()
	if m == nil {
		c.Bad = "nil tree"
		return
	}
	for i := 0; i < w.Cfg.NAll(); i++ {
		vp := newValPtr(w.Cfg)
		ok, err := m.Get(ctx, w.Cfg.Key(i), vp)
		if err != nil {
			c.Bad = fmt.Sprintf("Get(%v): %v", w.Cfg.Key(i), err)
			return
		}
		if ok {
			c.M[i] = w.Cfg.ValIndex(derefVal(w.Cfg, vp))
		}
	}
	c.Size = m.Size()
	return
}

// NewValPtr / DerefVal are exported for checks that call Get themselves.
func NewValPtr(c *Config) interface{}    { return newValPtr(c) }
func DerefVal(p interface{}) interface{} { return reflect.ValueOf(p).Elem().Interface() }

func newValPtr(c *Config) interface{} {
	if c.ValsLike == nil {
		var x interface{}
		return &x
	}
	return reflect.New(reflect.TypeOf(c.ValsLike)).Interface()
}

func derefVal(c *Config, p interface{}) interface{} {
	return reflect.ValueOf(p).Elem().Interface()
}

// ModelContents converts a reference map to Contents.
func ModelContents(m map[int]int) Contents {
	c := Contents{M: map[int]int{}, Size: uint64(len(m))}
	for k, v := range m {
		c.M[k] = v
	}
	return c
}

func copyModel(m map[int]int) map[int]int {
	if m == nil {
		return nil
	}
	o := make(map[int]int, len(m))
	for k, v := range m {
		o[k] = v
	}
	return o
}

var ErrNoTree = errors.New("verif: op on unused slot")

// Enabled reports whether op makes sense in the current world (unused slots etc.).
func (w *World) Enabled(op Op) bool {
	switch op.Kind {
	case OpLoad, OpLoadNoCache:
		return w.Roots[op.B] != nil
	case OpClone:
		return w.Trees[op.A] != nil // A == B: continue on the clone, dropping the original
	case OpDrop:
		return w.Trees[op.A] != nil && op.A != 0
	case OpFlushCache:
		return w.Cache != nil
	}
	if w.Trees[op.A] == nil {
		return false
	}
	switch op.Kind {
	case OpPersist, OpReload, OpReloadJSON, OpKeep, OpPersistFail:
		return !w.Cfg.InMemory
	}
	return true
}

// Apply executes one op against the real implementation and maintains the
// reference map. It never judges; monitors do.
func (w *World) Apply(op Op) Res {
	if w.Store != nil {
		w.Store.ResetLog()
	}
	r := w.apply(op)
	if w.Store != nil && r.Calls == nil {
		r.Calls = w.Store.Calls("")
	}
	return r
}

func (w *World) touch(slot, k int) {
	if w.Mod[slot] == nil {
		w.Mod[slot] = map[int]bool{}
	}
	w.Mod[slot][k] = true
}

func (w *World) apply(op Op) Res {
	cfg := w.Cfg
	switch op.Kind {
	case OpIns:
		m := w.Trees[op.A]
		h0 := m.Height()
		defer func() {
			if m.Height() != h0 {
				w.HChg[op.A] = true
			}
		}()
		r := guard(func() error { return m.Insert(ctx, cfg.FreshKey(op.K), cfg.FreshVal(op.V)) })
		if r.Err == nil && r.Panic == nil {
			if old, ok := w.Model[op.A][op.K]; !ok || old != op.V {
				w.touch(op.A, op.K)
			}
			w.Model[op.A][op.K] = op.V
		}
		return r
	case OpDel:
		m := w.Trees[op.A]
		h0 := m.Height()
		defer func() {
			if m.Height() != h0 {
				w.HChg[op.A] = true
			}
		}()
		r := guard(func() error { return m.Delete(ctx, cfg.FreshKey(op.K), cfg.FreshVal(op.V)) })
		if r.Err == nil && r.Panic == nil {
			delete(w.Model[op.A], op.K)
			w.touch(op.A, op.K)
		}
		return r
	case OpGet:
		m := w.Trees[op.A]
		return guard(func() error { _, err := m.Get(ctx, cfg.Key(op.K), newValPtr(cfg)); return err })
	case OpIter:
		m := w.Trees[op.A]
		return guard(func() error { return m.Iter(ctx, func(k, v interface{}) error { return nil }) })
	case OpPersist, OpReload, OpReloadJSON, OpKeep, OpPersistFail:
		m := w.Trees[op.A]
		var root *mast.Root
		if op.Kind == OpPersistFail {
			if op.V >= 10 {
				w.Msh.Reset()
				w.Msh.FailAt = map[int]bool{op.V - 10: true}
			} else {
				cls := op.V
				w.Store.Gate = func(kind, name string) error {
					if kind == "store" && StoreClass(name) == cls {
						return env.ErrInjected
					}
					return nil
				}
			}
		}
		r := guard(func() (err error) { root, err = m.MakeRoot(ctx); return })
		if op.Kind == OpPersistFail {
			w.Store.Gate = nil
			w.Msh.Reset()
			if r.Err != nil {
				r.Calls = w.Store.Calls("")
			}
		}
		if r.Err != nil || r.Panic != nil {
			return r
		}
		r.Root = root
		r.Calls = w.Store.Calls("")
		w.Store.ResetLog()
		w.Mod[op.A] = nil
		w.HChg[op.A] = false
		b := Base{Root: *root, Valid: true}
		if root.Link != nil {
			b.Link = *root.Link
		}
		switch op.Kind {
		case OpPersist, OpPersistFail:
			b.Contents = w.ReadContents(m)
			w.Base[op.A] = b
		case OpKeep:
			b.Contents = w.ReadContents(m)
			w.Base[op.A] = b
			rc := *root
			w.Roots[op.B] = &rc
			w.RootC[op.B] = b.Contents
		case OpReload, OpReloadJSON:
			lr := root
			if op.Kind == OpReloadJSON {
				js, err := json.Marshal(root)
				if err != nil {
					r.Err = fmt.Errorf("marshal root: %w", err)
					return r
				}
				var r2 mast.Root
				if err := json.Unmarshal(js, &r2); err != nil {
					r.Err = fmt.Errorf("unmarshal root: %w", err)
					return r
				}
				lr = &r2
			}
			var m2 *mast.Mast
			r2 := guard(func() (err error) { m2, err = lr.LoadMast(ctx, w.RemoteConfig(w.Store, true)); return })
			r2.Root = root
			r2.Calls = r.Calls
			r2.AuxCalls = w.Store.Calls("")
			if r2.Err != nil || r2.Panic != nil {
				return r2
			}
			r2.Loaded = m2
			w.Trees[op.A] = m2
			b.Contents = w.ReadContents(m2)
			w.Base[op.A] = b
			return r2
		}
		return r
	case OpLoad, OpLoadNoCache:
		root := w.Roots[op.B]
		var m2 *mast.Mast
		r := guard(func() (err error) {
			m2, err = root.LoadMast(ctx, w.RemoteConfig(w.Store, op.Kind == OpLoad))
			return
		})
		if r.Err != nil || r.Panic != nil {
			return r
		}
		r.Loaded = m2
		r.Calls = w.Store.Calls("")
		w.Trees[op.A] = m2
		w.Mod[op.A] = nil
		w.HChg[op.A] = false
		c := w.ReadContents(m2)
		w.Model[op.A] = copyModel(c.M)
		b := Base{Root: *root, Valid: true, Contents: c}
		if root.Link != nil {
			b.Link = *root.Link
		}
		w.Base[op.A] = b
		return r
	case OpClone:
		m := w.Trees[op.A]
		var m2 mast.Mast
		r := guard(func() (err error) { m2, err = m.Clone(ctx); return })
		if r.Err != nil || r.Panic != nil {
			return r
		}
		if w.Store != nil {
			r.Calls = w.Store.Calls("")
		}
		w.Trees[op.B] = &m2
		if op.A != op.B {
			w.Model[op.B] = copyModel(w.Model[op.A])
			w.Base[op.B] = w.Base[op.A]
			w.Mod[op.B] = nil
			w.HChg[op.B] = w.HChg[op.A]
			for k := range w.Mod[op.A] {
				w.touch(op.B, k)
			}
		}
		return r
	case OpCursor:
		m := w.Trees[op.A]
		var c *mast.Cursor
		r := guard(func() (err error) { c, err = m.Cursor(ctx); return })
		if r.Err != nil || r.Panic != nil {
			return r
		}
		w.Cursors[0] = c
		w.CursorC[0] = w.ReadContents(m)
		return r
	case OpFlushCache:
		w.Cache.Clear()
		return Res{}
	case OpDrop:
		w.Trees[op.A] = nil
		w.Model[op.A] = nil
		w.Mod[op.A] = nil
		w.HChg[op.A] = false
		w.Base[op.A] = Base{}
		return Res{}
	}
	panic("unknown op")
}

// StateKey renders the canonical key of the whole world. extra is appended by
// checks whose monitors carry bookkeeping that must distinguish states.
func (w *World) StateKey(extra string) string {
	d := NewDumper(w.Reduced)
	for i, m := range w.Trees {
		d.Tree(m)
		if w.Model[i] != nil {
			d.Raw(ModelContents(w.Model[i]).String())
		}
		d.Raw("|")
	}
	for _, c := range w.Cursors {
		d.Cursor(c)
	}
	for _, r := range w.Roots {
		if r == nil {
			d.Raw("R(nil);")
		} else {
			l := "nil"
			if r.Link != nil {
				l = *r.Link
			}
			d.Raw(fmt.Sprintf("R(%s,%d,%d,%d,%s);", l, r.Size, r.Height, r.BranchFactor, r.NodeFormat))
		}
	}
	if w.Cache != nil {
		ents, ord := w.Cache.Snapshot()
		d.CacheEntries(ents)
		d.Raw("lru" + strings.Join(ord, ","))
	}
	d.Raw(extra)
	return d.String()
}
