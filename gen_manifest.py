#!/usr/bin/env python3
"""Generates MANIFEST.json from the table below (kept in one place so the manifest stays valid)."""
import json, sys
props = [json.loads(l) for l in open('/verif/properties.jsonl')]
ids = [p['id'] for p in props]

# id -> (engine, category, technique, text, note, design_ref)
claimed = {
 'C01': ('W', 'model_checking',
   'explicit-state BFS to closure over API operation histories on the real implementation, merged on an exact heap dump',
   'Every reachable state of small closed alphabets (insert/delete over finite key and value universes, persist, persist+reload, cached reads) is visited on the real code and compared with a sorted-map model after every transition; closure (empty frontier) is reached for most configurations, the rest report the depth completed. Covers all key types, value types incl. uncomparable and nil, branch factors 2/3/4/16, both node formats, cache none/big/evicting.',
   'Finite universes (<=9 keys, <=2 values per configuration); state merging relies on the dump hook being a faithful image of the heap (checked: double replay, exact-vs-reduced key cross-check); Go runtime and encoding/json trusted.',
   'DESIGN.md 3.3, 3.4, C01'),
}
not_yet = 'check not built yet in this round (planned in DESIGN.md); will be claimed when its machinery exists'
checks = []
for i in ids:
    if i in claimed:
        eng, cat, tech, text, note, dref = claimed[i]
        checks.append({
          'property_id': i,
          'quick_cmd': f'./run.sh {i} quick',
          'thorough_cmd': f'./run.sh {i} thorough',
          'evidence_file': f'/verif/evidence/{i}.json',
          'replay_cmd_template': './run.sh replay {path}',
          'engine': eng,
          'level_claimed': {'category': cat, 'text': text, 'design_ref': dref},
          'level_note': note,
          'technique': tech,
        })
m = {
 'version': 1,
 'setup_cmd': './run.sh setup',
 'hooks': {
   'guard': 'verif',
   'enable': 'no hook is committed in /repo: run.sh adds /verif/overlay/mast/verif_dump.go (//go:build verif) to package mast with `go build -overlay ... -tags verif`; engine S additionally overlays generated instrumented copies of the package sources',
   'baseline_off_cmd': 'cd /repo && GOFLAGS=-mod=mod GOPROXY=off GOSUMDB=off GOTOOLCHAIN=local go test -json -vet=off -count=1 -timeout 25m ./...',
   'source_commits': [],
   'add_only': True,
 },
 'engines': [
   {'name': 'W', 'path': 'harness/explore', 'serves_properties': [i for i in ids if i in claimed and claimed[i][0]=='W'], 'kind_free_text': 'explicit-state BFS over operation histories of the real implementation (replay successors), canonical heap-dump state key'},
 ],
 'checks': checks,
 'not_applicable': [{'property_id': i, 'reason': not_yet} for i in ids if i not in claimed],
 'notes': 'See DESIGN.md. KNOWN_FINDINGS.txt lists genuine defects (known:/fixed:).',
}
json.dump(m, open('/verif/MANIFEST.json','w'), indent=1)
print('claimed', len(checks), 'not_applicable', len(m['not_applicable']))
