#!/usr/bin/env python3
"""Generates MANIFEST.json from the table below (kept in one place so the manifest stays valid)."""
import json, sys
props = [json.loads(l) for l in open('/verif/properties.jsonl')]
ids = [p['id'] for p in props]

# id -> (engine, category, technique, text, note, design_ref)
claimed = {
 'C01': ('W', 'model_checking',
   'explicit-state BFS to closure over API operation histories on the real implementation, merged on an exact heap dump',
   'Every reachable state of small closed alphabets (insert/delete over finite key and value universes, persist, persist+reload, cached reads) is visited on the real code and compared with a sorted-map model after every transition; closure (empty frontier) is reached for most configurations, the rest report the depth completed. Covers all key types, value types incl. uncomparable and nil, branch factors 2/3/4/16, both node formats, cache none/big/evicting.',
   'Finite universes (<=9 keys, <=2 values per configuration); state merging relies on the dump hook being a faithful image of the heap (checked: double replay, exact-vs-reduced key cross-check); Go runtime and encoding/json trusted.',
   'DESIGN.md 3.3, 3.4, C01'),
 'C02': ('W', 'model_checking', 'closure x bounded fan-out: every single-tree state x every capture (clone, retained root reloaded with/without cache, cursor) x every continuation of <=L operations, explicit-state on the real implementation',
   'Base states are the full single-tree closure (or every persisted version of an 8-key height-2 universe); for every base and capture, all continuations of length <=2 (3 thorough) over all live trees are explored with de-duplication on the heap dump. After every transition, trees the operation did not target must read exactly as before; in every distinct state every retained root is reloaded with and without the cache and the cursor is walked. Cache none, big, evicting (capacity 1 and 2).',
   'Continuations longer than L after a capture and more than 3 live trees are outside the bound; contents are read by per-key Get over the finite universe.', 'DESIGN.md 3.4, C02'),
 'C06': ('W', 'model_checking', 'explicit-state closure to enumerate tree states, then exhaustive enumeration of all ordered pairs of states plus related (clone/reload + <=2 ops) pairs; oracle = merge of the two trees actual contents',
   'Every ordered pair (old,new) of reachable single-tree states (fresh, emptied, in-memory, persisted, mixed; equal and different heights) plus old=nil is diffed with DiffIter, StartDiff/NextEntry, and DiffIter stopped or failed at every callback index; related pairs share in-memory nodes.',
   'Finite universes (4-5 keys for the pair product); quick tier samples base states for the related fan-out by a fixed stride (reported).', 'DESIGN.md C06'),
 'C07': ('W', 'model_checking', 'exhaustive enumeration of all ordered pairs of persisted versions of a finite universe on the real implementation; oracle = reach sets from an independent store walker + replica load',
   'All ordered pairs of all versions (every subset of the keys x values, heights 0-3, empty versions, pass-through nodes via user keys): DiffLinks events compared with reach(new)-reach(old) and reach(old)-reach(new) from the reference walker (superset of the difference, inside the respective version, no name twice), then LoadMast(new) + full read from a fresh store holding only reach(old) + added.',
   'Finite universes (<=9 keys quick, 11 thorough).', 'DESIGN.md C07'),
 'C10': ('W', 'model_checking', 'explicit-state closure over tree states; in every state an inner exhaustive BFS over cursor placements and Forward/Backward step sequences de-duplicated on the dumped cursor path; SeekIter from every probe',
   'For every reachable tree state: Min, Max, Ceil(p) for every universe key and absent probe, then every sequence of Forward/Backward steps until stepping off an end, Get compared with the position in the sorted key list; SeekIter(p) for every probe with early stop at every position. Branch factors 2,3,4,16, user keys with adversarial layers, empty and emptied trees.',
   'Finite universes; behaviour after stepping off an end is not judged (not specified).', 'DESIGN.md C10'),
 'C15': ('W', 'model_checking', 'exhaustive enumeration of all ordered pairs of persisted versions on cache-less recording stores; oracle = distinct Load names vs 2*D+2',
   'For all ordered pairs of all versions of the universe, the distinct names passed to Persist.Load during DiffIter and DiffLinks are counted and compared with 2*D+2 (D from the reference walker); identical versions must load nothing. Also: the new side taken from a writer with a NodeCache, StartDiff/NextEntry, and a tall-tree family (bf 2, 4 200 keys; every high-layer key deleted x a second change on a grid and at every other high-layer key) where the bound is tight; the base is also compared with each of those versions (pass-through node on one side only); every pair also with the old version opened through a mirror store handle; and a wide-node family (2^k versions differing only in the separators of one node over common leaves), also with tall common subtrees below the moving separators; this family exposed a genuine defect of the library (repaired in /repo acebcee); pairs that exceed the bound are classified in the signature - only roots of common subtrees directly below differing nodes read, versus anything else.',
   'Finite universes; thorough adds larger seeded trees with single/two-key modifications.', 'DESIGN.md C15'),
 'C03': ('F+S', 'model_checking', 'engine F (every failing subset of the writes, by node name, with retries) over every pre-state of the closure, and engine S: stateless DFS over all interleavings of MakeRoot goroutines up to a preemption bound on an instrumented copy of package mast under a cooperative scheduler',
   'Part A: for every reachable tree state that has something to write, every non-empty subset of its Store calls fails (<=4 writes; singles and pairs above), followed by a clean retry, a retry failing again, and a third attempt: an error is reported iff a write failed, the tree still answers Get/Size and accepts an insert, a later success implies every reachable node is in the store under its own name, and a cache shared with a second store never causes a write to be skipped. Part B: one representative tree per number of dirty nodes and height; all schedules of caller, dispatcher and workers with <=2 preemptions (<=3 writes) / <=1 / 0, each with no fault and with each single write failing; at the instant MakeRoot returns nil every reachable node must already be in the store; no deadlock, no panic. Part C (engine Q): the unmodified package inside a go1.26 testing/synctest bubble, every completion order of the parked Store calls x each single failing write (<=4 dirty nodes), as a cross-check of the instrumented runs. Also: a 63-dirty-node tree (the 40-slot gate saturates) with every single write failing, two stores sharing one cache (distinct prefixes, prefixes differing only by slashes, and the in-memory stores of the library itself). Part D (engine W): failing MakeRoot calls - a class of Store calls chosen by node name, or the i-th Marshal call - are transitions of the single-tree alphabet, explored to closure (cache-less) / depth 6 (cached): a failed call changes nothing the tree answers, an error is reported iff a write failed, and every later successful root is complete.',
   'Sequential consistency; >2 preemptions and >5 concurrent writes outside the bound (the 40-slot gate never saturates in the explored scenarios); the instrumenter is validated by running the repository tests on the instrumented package in pass-through mode.', 'DESIGN.md 3.5, 3.7, C03'),
 'C11': ('S', 'model_checking', 'engine S: stateless DFS over all interleavings (<=2 preemptions) of 2-3 threads, each with its own tree over a shared store and cache, at environment-call and sync-operation granularity on the instrumented package; differential oracle; plus a free-running -race pass',
   'Every pair of single operations (Get/Insert/Delete on colliding keys, Iter, MakeRoot, Clone, LoadMast) and insert+MakeRoot against every operation, for trees obtained by LoadMast of one root through a shared cache or by Clone, on three bases (plain, height-2 user keys, evicting cache): in every schedule each thread must observe exactly what it observes alone and the base root must still reload to its contents. Bases include a branch-factor-4 tree whose leaves have spare slice capacity, struct keys (every user-marshaler call is a scheduling point), an evicting cache and a cache that lost its entries; the return of NodeCache.Add is a scheduling point (publication). The same thread bodies run ~30k times free-running under the Go race detector.',
   'Scheduler-level exploration assumes sequential consistency and atomicity between scheduling points; the race pass samples (it is not the deciding step); >2 preemptions, >3 threads outside the bound.', 'DESIGN.md 3.7, C11'),
 'C12': ('F', 'fault_enumeration', 'engine F: for every pre-state of the closure and every operation, a 0-deviation execution counts the environment calls, then one execution per Load / KeyCompare / Marshal call index (pairs in the thorough tier) with that answer replaced by an error',
   'Insert/Delete of every key and value, Get, Iter, SeekIter, DiffIter, DiffLinks, Clone and cursor navigation, from every reachable tree state (all mixes of persisted, loaded and dirty nodes): whenever the call returns an error the contents, Size and Height must be what they were, and the same call retried fault-free (a cursor step: on the same cursor) must behave like the fault-free execution (a diff cursor: StartDiff/NextEntry walked to the end with the failing NextEntry retried on the same cursor). Includes height-3 seeded trees, slice-valued entries and evicting caches.',
   'Finite universes; panics under injected faults are counted but not judged (the property speaks of returned errors).', 'DESIGN.md 3.5, C12'),
 'C14': ('enum', 'exploration', 'exhaustive enumeration of nodes / layer inputs / key pairs with a three-way comparison: implementation vs independent re-implementation vs frozen golden vectors',
   'Roots of every version of 180 configurations (all 81 layer assignments of 4 user keys, all built-in key types, both formats), DefaultLayer over integers -300..300, powers/multiples of bf up to 2^63 and 500 strings x 19 branch factors x 14 key types, DefaultKeyCompare over all pairs, and the defaults of new trees are compared with an independent encoder/hash/layer/order implementation and with golden vectors generated once and cross-checked against the pinned commit. Failed MakeRoot calls (every Marshal index, every Store class) are interleaved with the computation of the vectors: bytes must not depend on what an earlier failed call left behind.',
   'Go stdlib crc64/json and x/crypto BLAKE2b are the trusted base; "every release and host" is approximated by this tree on this host against frozen vectors.', 'DESIGN.md C14'),
 'C17': ('X', 'fault_enumeration', 'engine X: crash-point enumeration - one child process per (node size, byte offset, mode) runs the real file store under RLIMIT_FSIZE so the kernel cuts the write at exactly that byte (process killed by SIGXFSZ, or EFBIG returned), then restart + Load + re-Store + Load',
   'Every byte offset 0..len for node sizes 1, 33, 4097 (10000 and strided 70000 in the thorough tier), both crash and I/O-error mode: the first Load after the cut must be not-found or the complete bytes, a re-Store must make the node complete, an acknowledged Store must be complete; plus the same Store retried in the same process after the I/O error cleared.',
   'No power-loss / page-cache model (the property does not ask for one); RLIMIT_FSIZE semantics of the kernel.', 'DESIGN.md 3 (engine X), C17'),
 'C18': ('enum', 'model_checking', 'explicit-state BFS to closure over call histories of one backend object (Store/Load of three names plus a never-written one; on S3 also each call with its client request answered by an error or a body failing mid-read) against a map model, successors by replay on a fresh backend; plus exhaustive enumeration of backend x name x payload for a fixed call sequence, and all interleavings of two Stores and a Load (engine S)',
   'In-memory, file and S3 (fake S3Interface returning the SDK error types, three bucket/prefix pairs) backends. BFS: every reachable combination of (stored, store attempted/failed, load attempted/failed) per name, each call judged against the model and, in every new state, every name loaded and the S3 object map compared with the model (exact bucket/prefix+name addressing, exactly one client request per call). Enumeration: 31 names x 5 payloads (empty, binary, 1 MiB): round trip, missing names error, double store, two names. Engine S: Store || Store || Load of one name, preemption bound 3, on the in-memory store, on S3 and on the file backend (its package os replaced, at build time, by an in-memory file system whose calls are scheduling points; a Write is two); every writer loads right after its Store returned nil.',
   'Real S3 semantics are represented by the fake client; the file backend has no fault alphabet here (its cut-short writes are C17); its concurrent exploration runs on a model of the file system (create/open/write/rename/link/remove/chmod semantics of POSIX as far as the package uses them), and is reported as not explored if the package uses an os facility the model lacks.', 'DESIGN.md C18'),
 'C19': ('enum', 'exploration', 'exhaustive enumeration of (persisted version x perturbation); the reference decoder/order/layer functions decide which clause of the property holds, only those cases are judged',
   'Every version of six universes x {unknown formats, missing top node, every proper prefix of the top node, every mismatched (keys,values,links) framing, rearranged/duplicated keys, reversed loader order, Height 0..H+3, BranchFactor 2/3/4/5/16}: LoadMast must return an error (not panic, not a tree), also when the top node already sits in a shared node cache (put there by an earlier load, or by the flush of the writer).',
   'Perturbations for which no clause of the property holds are not judged.', 'DESIGN.md C19'),
 'C04': ('W', 'model_checking', 'explicit-state BFS to closure on the real implementation; oracle = independently built canonical Merkle search tree, encoded and hashed independently',
   'At every MakeRoot transition of every reachable state the returned Root (link, height, size) is compared with the root of the canonical tree that the reference builder constructs from the entries the tree actually holds (layers and height rule re-derived from the definition, independent codec and BLAKE2b). All histories of the alphabet ending in the same contents are thereby compared with each other and with the reference.',
   'Finite universes; all 4^5 layer assignments of a user Key type in the thorough tier, 8 representative ones in quick; reference builder/codec/hash are the trusted side.', 'DESIGN.md C04'),
 'C05': ('W', 'model_checking', 'explicit-state BFS with reload transitions (direct and via JSON of the Root) at every reachable state',
   'MakeRoot+LoadMast is a transition available in every state, so reload happens at every reachable state and the reloaded tree keeps being mutated, persisted and reloaded; after each reload entries (per-key Get), Size, Height, BranchFactor and NodeFormat are compared with the source tree. Key/value types, both formats, default JSON and a custom tagged marshaler with registered types, cache none/big.',
   'Finite universes; configurations whose encoding does not round-trip (v1.1.5binary with KeysLike=nil) are out of the property and not run.', 'DESIGN.md C05'),
 'C08': ('W', 'model_checking', 'explicit-state BFS; oracle on every Persist.Store call with an independent hash and codec',
   'Every Store call issued on every transition of the explored state spaces is checked: name == base64url(BLAKE2b-256(bytes)) by x/crypto (mast uses blake2b-simd), bytes decode and re-encode byte-identically with the independent codec (no capacity/flag/link-kind leakage), name->bytes and root-name->contents tables single-valued across all histories. Histories include MakeRoot calls that fail half-way (a Marshal call or a class of Store calls fails): what is written afterwards must still be the canonical encoding of its entries.',
   'x/crypto BLAKE2b and encoding/json trusted; finite universes.', 'DESIGN.md C08'),
 'C09': ('W', 'model_checking', 'explicit-state BFS; every persisted version decoded from the store by the independent codec and checked against the shape invariants',
   'For every root produced on every MakeRoot transition, all reachable nodes are decoded from the recording store and the invariants of the property (levels, layers per level, strict order, ranges, link slots, no entry-less node except pass-through, recorded size) are evaluated relative to the recorded height; includes adversarial layer assignments through a user Key type and delete-heavy histories.',
   'Finite universes; reference decoder trusted.', 'DESIGN.md C09'),
 'C13': ('W', 'model_checking', 'explicit-state BFS with the base version and modified-key set in the state key; oracle on recorded Store calls and IsDirty',
   'Every MakeRoot transition is judged against the version the tree was loaded from / last persisted as and the exact set of keys modified since (tracked by the harness, part of the state key): stored names reachable from the new root, nothing written and same root if nothing was modified, no base node rewritten unless a modified key lies in its (closed) key range, at most 2h+2 writes per modified key while the height never changed; IsDirty()==false implies contents == base, in every reachable state.',
   'Finite universes; key range read as the closed interval between the parent separators (a modified separator restructures both neighbours).', 'DESIGN.md C13'),
 'C16': ('W', 'model_checking', 'explicit-state BFS on a cache-less recording store; oracle = Persist.Load call counts per API call',
   'In every reachable state (every mix of in-memory and persisted nodes) Get of every key and absent probe, Clone, and on every transition Insert/Delete/LoadMast are bounded by the counts the property states, measured as calls to Persist.Load.',
   'Finite universes (heights up to 3); larger seeded trees in the thorough tier.', 'DESIGN.md C16'),
}
not_yet = 'check not built yet in this round (planned in DESIGN.md); will be claimed when its machinery exists'
checks = []
for i in ids:
    if i in claimed:
        eng, cat, tech, text, note, dref = claimed[i]
        checks.append({
          'property_id': i,
          'quick_cmd': f'./run.sh {i} quick',
          'thorough_cmd': f'./run.sh {i} thorough',
          'evidence_file': f'/verif/evidence/{i}.json',
          'replay_cmd_template': './run.sh replay {path}',
          'engine': eng,
          'level_claimed': {'category': cat, 'text': text, 'design_ref': dref},
          'level_note': note,
          'technique': tech,
        })
m = {
 'version': 1,
 'setup_cmd': './run.sh setup',
 'hooks': {
   'guard': 'verif',
   'enable': 'no hook is committed in /repo: run.sh adds /verif/overlay/mast/verif_dump.go (//go:build verif) to package mast with `go build -overlay ... -tags verif`; engine S additionally overlays generated instrumented copies of the package sources',
   'baseline_off_cmd': 'cd /repo && GOFLAGS=-mod=mod GOPROXY=off GOSUMDB=off GOTOOLCHAIN=local go test -json -vet=off -count=1 -timeout 25m ./...',
   'source_commits': [],
   'add_only': True,
 },
 'engines': [
   {'name': 'W', 'path': 'harness/explore', 'serves_properties': [i for i in ids if i in claimed and claimed[i][0]=='W'], 'kind_free_text': 'explicit-state BFS over operation histories of the real implementation (replay successors), canonical heap-dump state key'},
   {'name': 'F', 'path': 'harness/checks/c12.go, c03seq.go', 'serves_properties': ['C03', 'C12'], 'kind_free_text': 'fault explorer: 0-deviation reference execution, then one execution per environment-call index answered by an error, from every pre-state of engine W'},
   {'name': 'S', 'path': 'harness/sched, overlay/verifrt, harness/cmd/instr', 'serves_properties': ['C03', 'C11'], 'kind_free_text': 'source instrumentation (go/ast) of sync, go and channel operations to a cooperative runtime; stateless DFS over schedules with iterative preemption bound and ownership-based reduction'},
   {'name': 'X', 'path': 'harness/checks/c17.go', 'serves_properties': ['C17'], 'kind_free_text': 'crash-point enumerator: child processes under RLIMIT_FSIZE'},
   {'name': 'enum', 'path': 'harness/checks/c14.go, c18.go, c19.go', 'serves_properties': ['C14', 'C18', 'C19'], 'kind_free_text': 'exhaustive enumeration of finite input spaces against independent reference implementations and golden vectors'},
 ],
 'checks': checks,
 'not_applicable': [{'property_id': i, 'reason': not_yet} for i in ids if i not in claimed],
 'notes': 'See DESIGN.md. KNOWN_FINDINGS.txt lists genuine defects (known:/fixed:).',
}
json.dump(m, open('/verif/MANIFEST.json','w'), indent=1)
print('claimed', len(checks), 'not_applicable', len(m['not_applicable']))
